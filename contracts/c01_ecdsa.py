"""C01 / C02 / C03: field helpers, ECDSA sign / verify, DER, signature flag byte."""
from pyvc.contracts import Theorem, Case, Loop, fn_contract, register

N = "bits.ecmath.SECP256K1_N"
EC = "bits.ecmath"

# ---- field helpers (proved; used modularly by nobody: they are small enough to inline everywhere)
for op, sym in (("add_mod_p", "+"), ("sub_mod_p", "-"), ("mul_mod_p", "*")):
    register(fn_contract(
        f"C03.{op}", ["C03", "C01", "C02", "C12"], f"{EC}.{op}", {"x": "int", "y": "int", "p": "int"}, requires=["p >= 1"],
        cases=[Case("in_field", when="0 <= x < p and 0 <= y < p", ensures={"value": f"result == (x {sym} y) % p", "range": "0 <= result < p"}),
               Case("out_of_field", when="not (0 <= x < p and 0 <= y < p)", raises=(ValueError,))],
        witnesses=[{"x": 5, "y": 7, "p": 11}, {"x": 0, "y": 1, "p": 2**256 - 2**32 - 977}, {"x": 11, "y": 0, "p": 11}],
    ))
register(fn_contract(
    "C03.div_mod_p", ["C03", "C01", "C02"], f"{EC}.div_mod_p", {"x": "int", "y": "int", "p": "int"}, requires=["p >= 2"],
    cases=[Case("in_field", when="0 <= x < p and 0 <= y < p", ensures={"fermat": "result == (x * pow(y, p - 2, p)) % p", "range": "0 <= result < p"}),
           Case("out_of_field", when="not (0 <= x < p and 0 <= y < p)", raises=(ValueError,))],
    witnesses=[{"x": 5, "y": 7, "p": 11}, {"x": 12, "y": 7, "p": 11}],
))

# ---- group operations as seen by ECDSA: results are the spec's (uninterpreted) group operations.  These two contracts
# are ASSUMED here (modular use); discharging them is property C03's job (Lean bridge) and is not done in this round.
PT_RET = "optional:point"
register(fn_contract(
    "C03.point_scalar_mul.assumed", ["C03"], f"{EC}.point_scalar_mul", {"k": "int", "P": "point"},
    requires=["k >= 0", "spec.ec.on_curve(P[0], P[1])"],
    cases=[Case("identity", when="spec.ec.smul_inf(k, P[0], P[1])", ensures={
               "none": "result is None",
               "order_of_G": "k % spec.ec.N == 0 or P != spec.ec.G"}),   # A-order: n is the order of G
           Case("point", when="not spec.ec.smul_inf(k, P[0], P[1])", ensures={
               "value": "result == (spec.ec.smul_x(k, P[0], P[1]), spec.ec.smul_y(k, P[0], P[1]))",
               "closed": "spec.ec.on_curve(result[0], result[1])",
               "order": "True"})],
    returns=PT_RET, options={"assumed": True, "bounded_only": True, "fixed_args": {"a": 0, "b": 7},
                             "bounded_inputs": lambda: ({"k": k, "P": (0x79BE667EF9DCBBAC55A06295CE870B07029BFCDB2DCE28D959F2815B16F81798, 0x483ADA7726A3C4655DA4FBFC0E1108A8FD17B448A68554199C47D08FFB10D4B8)} for k in
                                                        [0, 1, 2, 3, 0xFFFFFFFFFFFFFFFFFFFFFFFFFFFFFFFEBAAEDCE6AF48A03BBFD25E8CD0364140, 0xFFFFFFFFFFFFFFFFFFFFFFFFFFFFFFFEBAAEDCE6AF48A03BBFD25E8CD0364141, 0xFFFFFFFFFFFFFFFFFFFFFFFFFFFFFFFEBAAEDCE6AF48A03BBFD25E8CD0364142, 2**256 - 1] + [pow(3, i, 2**256) for i in range(1, 40)]),
                             "bound": "47 scalars incl. 0, 1, n-1, n, n+1, 2^256-1 against the spec's own textbook implementation"},
))
register(fn_contract(
    "C03.point_add.assumed", ["C03"], f"{EC}.point_add", {"p1": "optional:point", "p2": "optional:point"},
    requires=["p1 is None or spec.ec.on_curve(p1[0], p1[1])", "p2 is None or spec.ec.on_curve(p2[0], p2[1])"],
    cases=[Case("ok", ensures={"value": "result == spec.ec.padd(p1, p2)",
                               "closed": "result is None or spec.ec.on_curve(result[0], result[1])"})],
    returns=PT_RET, options={"assumed": True, "bounded_only": True, "fixed_args": {"a": 0, "b": 7},
                             "bounded_inputs": lambda: iter([{"p1": None, "p2": None}]),
                             "bound": "trivial instance only: the textbook-law equality is PROVED as C03.point_add; this contract restates it over the spec's group symbols for modular use"},
))

SMUL = f"{EC}.point_scalar_mul@C03.point_scalar_mul.assumed"
PADD = f"{EC}.point_add@C03.point_add.assumed"

def _sign_cases(rng):
    """keys, digests and scripted nonce draws incl. 0, 1, n-1 and the draw that makes the first candidate s == 0"""
    import spec
    ec = spec.ec
    d = rng.choice([1, 2, ec.N - 1, rng.randrange(1, ec.N)])
    k = rng.choice([1, 2, ec.N - 1, rng.randrange(1, ec.N)])
    z = rng.choice([0, 1, ec.N - 1, ec.N, ec.N + 1, 2**256 - 1, rng.getrandbits(256)])
    if rng.random() < 0.4:
        r = ec.ec_mul(k, ec.G)[0] % ec.N
        z = (-r * d) % ec.N + rng.choice([0, ec.N])          # s == 0 for this nonce
    return {"key": d, "digest": z, "draws": [rng.choice([0, k]), k, rng.randrange(1, ec.N), 1]}


# ---- ecmath.sign: range, low-S, nonce discipline -- for every key, digest and every sequence of RNG draws
SIGN_OUTER = Loop(invariant=["0 <= r < N", "0 <= s <= N // 2"], types={})
SIGN_INNER = Loop(invariant=["0 <= k < N"], types={})
register(fn_contract(
    "C01.sign", ["C01"], f"{EC}.sign", {"key": "int", "digest": "int"},
    requires=[f"1 <= key < {N}", "0 <= digest"],
    cases=[Case("ok", ensures={"r_range": f"1 <= result[0] < {N}", "low_s": f"1 <= result[1] <= {N} // 2"})],
    loops={(f"{EC}.sign", 1): SIGN_OUTER, (f"{EC}.sign", 2): SIGN_INNER},
    modular=[SMUL], returns=("tuple", ["int", "int"]),
    options={"fixed_args": {"N": 0xFFFFFFFFFFFFFFFFFFFFFFFFFFFFFFFEBAAEDCE6AF48A03BBFD25E8CD0364141, "G": (0x79BE667EF9DCBBAC55A06295CE870B07029BFCDB2DCE28D959F2815B16F81798, 0x483ADA7726A3C4655DA4FBFC0E1108A8FD17B448A68554199C47D08FFB10D4B8)},
             "assumptions": ["A-rng (pyvc/ghosts.py)", "A-order: k*G != O for 1 <= k < n (the order of G is n); without it sign's tuple unpacking could raise TypeError"],
             "native_body": "spec.ec.sign_with_draws(key, digest, draws)", "native_gen": _sign_cases, "nla": False},
))


def _valid_sigs(rng):
    """(r, s, Q, z) satisfying the verification equation, built with the spec's own arithmetic; digests incl. >= n."""
    import spec
    ec = spec.ec
    d = rng.choice([1, 2, ec.N - 1, rng.randrange(1, ec.N)])
    k = rng.choice([1, 2, ec.N - 1, rng.randrange(1, ec.N)])
    z = rng.choice([0, 1, ec.N - 1, ec.N, ec.N + 1, 2**256 - 1, rng.getrandbits(256)])
    if rng.random() < 0.15:
        # crafted: u1*G + u2*Q is the point at infinity (d = -z/r), any s
        r = rng.randrange(1, ec.N)
        d = (-(z % ec.N) * pow(r, -1, ec.N)) % ec.N
        if d == 0:
            return _valid_sigs(rng)
        return {"r": r, "s": rng.choice([1, ec.N - 1, rng.randrange(1, ec.N)]), "point": ec.ec_mul(d, ec.G), "digest": z}
    R = ec.ec_mul(k, ec.G)
    r = R[0] % ec.N
    s = (z + r * d) * pow(k, -1, ec.N) % ec.N
    if r == 0 or s == 0:
        return _valid_sigs(rng)
    if rng.random() < 0.5:
        s = ec.N - s
    q = ec.ec_mul(d, ec.G)
    kind = rng.random()
    if kind < 0.25:
        s = (s + 1) % ec.N or 1          # invalid
    elif kind < 0.35:
        r = rng.choice([0, ec.N, r + ec.N])
    return {"r": r, "s": s, "point": q, "digest": z}


register(fn_contract(
    "C02.verify", ["C02", "C01"], f"{EC}.verify", {"r": "int", "s": "int", "point": "point", "digest": "int"},
    requires=["spec.ec.on_curve(point[0], point[1])", "0 <= digest < 2**256"],
    cases=[Case("valid", when="spec.ec.ecdsa_ok(r, s, point[0], point[1], digest)", ensures={"accepts": "result is True"}),
           Case("invalid", when="otherwise", raises=(AssertionError, TypeError, ValueError))],
    modular=[SMUL, PADD], returns="bool",
    options={"native_gen": _valid_sigs, "fixed_args": {"N": 0xFFFFFFFFFFFFFFFFFFFFFFFFFFFFFFFEBAAEDCE6AF48A03BBFD25E8CD0364141, "G": (0x79BE667EF9DCBBAC55A06295CE870B07029BFCDB2DCE28D959F2815B16F81798, 0x483ADA7726A3C4655DA4FBFC0E1108A8FD17B448A68554199C47D08FFB10D4B8)}, "feas_ms": 300, "nla": False,
             "assumptions": ["A-prime-n + lemma fermat_inv: pow(s, n-2, n) is the inverse of s modulo the prime n (spec.ec.inv_n)",
                             "assumed contracts C03.point_scalar_mul.assumed / C03.point_add.assumed (group operations)"]},
    witnesses=[],
))

# ---- DER
register(fn_contract(
    "C01.der_encode_sig", ["C01", "C02"], "bits.utils.der_encode_sig", {"r": "int", "s": "int"},
    requires=[f"1 <= r < {N}", f"1 <= s < {N}"],
    cases=[Case("ok", ensures={"der": "result == spec.der.der_sig(r, s)", "bounded": "8 <= len(result) <= 72"})],
    returns="bytes",
    witnesses=[{"r": 1, "s": 1}, {"r": 5, "s": 0x80 << 240}, {"r": 2**255, "s": 2**255 + 1}, {"r": 127, "s": 128}, {"r": 0x7FFF, "s": 0x8000}],
))
register(Theorem(
    "C01.der.roundtrip", ["C01", "C02"], params={"r": "int", "s": "int"}, requires=[f"1 <= r < {N}", f"1 <= s < {N}"],
    body="bits.utils.der_decode_sig(bits.utils.der_encode_sig(r, s))",
    cases=[Case("ok", ensures={"same": "result == (r, s)"})],
    fuc=["bits.utils.der_encode_sig", "bits.utils.der_decode_sig", "bits.pem.encode_parsed_asn1", "bits.pem.parse_asn1"],
    witnesses=[{"r": 1, "s": 1}, {"r": 5, "s": 0x80 << 240}, {"r": 2**255, "s": 2**255 + 1}],
))
register(Theorem(
    "C01.der.strict", ["C01", "C02"], params={"r": "int", "s": "int"}, requires=[f"1 <= r < {N}", f"1 <= s < {N}"],
    body="spec.der.strict_der(spec.der.der_sig(r, s))",
    cases=[Case("ok", ensures={"bip66": "result is True"})],
    note="the spec encoding satisfies the BIP66 predicate for every (r, s) in range; with C01.der_encode_sig this makes the library's encoding strict",
    witnesses=[{"r": 1, "s": 1}, {"r": 2**255, "s": 2**255 + 1}],
))

FLAGS = [0x01, 0x02, 0x03, 0x81, 0x82, 0x83]
SIGN = f"{EC}.sign@C01.sign"
DERENC = "bits.utils.der_encode_sig@C01.der_encode_sig"
register(fn_contract(
    "C01.sig", ["C01"], "bits.utils.sig", {"key": "bytes:32", "msg": "bytes", "sighash_flag": ("enum", FLAGS), "msg_preimage": "bool"},
    requires=[f"1 <= int.from_bytes(key, 'big') < {N}"],
    cases=[
        Case("ok", when="not msg_preimage or int.from_bytes(msg[-4:], 'little') == sighash_flag", ensures={
            "flag_byte": "result[-1] == sighash_flag",
            "der_of_signature": "result[:-1] == spec.der.der_sig(ghost_ret_sign[0], ghost_ret_sign[1])",
            "signs_with_the_key": "ghost_call_sign_key == int.from_bytes(key, 'big')",
            "signs_the_digest": "ghost_call_sign_digest == int.from_bytes(spec.bip143.dsha(msg if msg_preimage else msg + sighash_flag.to_bytes(4, 'little')), 'big')",
            "one_signature": "ghost_calls_sign == 1"}),
        Case("preimage_flag_mismatch", when="otherwise", raises=(AssertionError,)),
    ],
    modular=[SIGN, DERENC],
    options={"assumptions": ["modular: C01.sign, C01.der_encode_sig"], "nla": False, "feas_ms": 300},
))


def _sigtuples(rng):
    import spec
    ec = spec.ec
    base = _valid_sigs(rng)
    while base["r"] < 1 or base["s"] < 1:
        base = _valid_sigs(rng)
    q = base["point"]
    pk = ec.sec1_encode(q[0], q[1], rng.random() < 0.5)
    return {"r": base["r"], "s": base["s"], "flag": rng.choice(FLAGS + [0, 4, 255]), "pk": pk,
            "msg": bytes(rng.getrandbits(8) for _ in range(rng.choice([0, 1, 32, 100]))), "pre": rng.random() < 0.3}


register(Theorem(
    "C02.sig_verify", ["C02", "C01"],
    params={"r": "int", "s": "int", "flag": "int", "pk": "bytes", "msg": "bytes", "pre": "bool"},
    requires=["1 <= r < 2**256", "1 <= s < 2**256", "0 <= flag < 256"],
    lets={"z": "int.from_bytes(spec.bip143.dsha(msg if pre else msg + flag.to_bytes(4, 'little')), 'big')"},
    body="bits.utils.sig_verify(spec.der.der_sig(r, s) + bytes([flag]), pk, msg, msg_preimage=pre)",
    cases=[
        Case("valid", when="spec.ec.sec1_ok(pk) and spec.ec.ecdsa_ok(r, s, spec.ec.sec1_x(pk), spec.ec.sec1_y(pk), z)",
             ensures={"ok": "result == 'OK'"}),
        Case("invalid", when="otherwise", raises=(ValueError, TypeError, AssertionError, IndexError, KeyError),
             ensures={"never_ok": "result != 'OK'"}),
    ],
    modular=["bits.utils.point@C14.point", f"{EC}.verify@C02.verify"],
    fuc=["bits.utils.sig_verify", "bits.utils.der_decode_sig"],
    options={"native_gen": _sigtuples, "feas_ms": 300, "nla": False,
             "assumptions": ["signatures are given as spec DER of (r, s) with 1 <= r, s < 2**256 plus a flag byte; arbitrary non-DER byte strings are not covered (parse_asn1 over symbolic bytes needs an invariant)"]},
))

register(Theorem(
    "C02.ensure_sig_low_s", ["C02"], params={"r": "int", "s": "int"}, requires=[f"1 <= r < {N}", f"1 <= s < {N}"],
    body="bits.utils.ensure_sig_low_s(spec.der.der_sig(r, s))",
    cases=[Case("ok", ensures={"low_s_strict_der": f"result == spec.der.der_sig(r, s if s <= {N} // 2 else ({N} - s) % {N})"})],
    fuc=["bits.utils.ensure_sig_low_s"], options={"nla": False, "feas_ms": 300},
    witnesses=[{"r": 5, "s": 7}, {"r": 5, "s": 0xFFFFFFFFFFFFFFFFFFFFFFFFFFFFFFFEBAAEDCE6AF48A03BBFD25E8CD0364141 - 0x1234},
               {"r": 2**255, "s": 0xFFFFFFFFFFFFFFFFFFFFFFFFFFFFFFFEBAAEDCE6AF48A03BBFD25E8CD0364141 - 1}],
))
