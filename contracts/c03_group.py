"""C03: group law (point_add against the textbook affine law), private keys, key generation."""
from pyvc.contracts import Theorem, Case, fn_contract, register

P = ["C03"]
EC = "bits.ecmath"
N = "bits.ecmath.SECP256K1_N"
SMUL = f"{EC}.point_scalar_mul@C03.point_scalar_mul.assumed"
FIELD = ["A-prime-p and the field lemmas fermat_inv (x**(p-2) = 1/x), sq_eq_sq_field, pow_eq_zero_field, no_two_torsion (lean/Field.lean; not run in this round)"]


def _pairs(rng):
    """pairs of curve points incl. P+P, P+(-P), the identity, and points with equal / opposite y but different x
    (they exist because p = 1 mod 3: x -> beta*x keeps y**2 = x**3 + 7)"""
    import spec
    ec = spec.ec
    beta = pow(2, (ec.P - 1) // 3, ec.P)
    a = ec.ec_mul(rng.randrange(1, ec.N), ec.G)
    kind = rng.random()
    if kind < 0.15:
        b = a
    elif kind < 0.3:
        b = (a[0], (ec.P - a[1]) % ec.P)
    elif kind < 0.4:
        b = None
    elif kind < 0.55:
        b = (beta * a[0] % ec.P, a[1])
    elif kind < 0.7:
        b = (beta * beta * a[0] % ec.P, (ec.P - a[1]) % ec.P)
    else:
        b = ec.ec_mul(rng.randrange(1, ec.N), ec.G)
    if rng.random() < 0.1:
        a = None
    return {"p1": a, "p2": b} if rng.random() < 0.5 else {"p1": b, "p2": a}


register(fn_contract(
    "C03.point_add", P, f"{EC}.point_add", {"p1": "optional:point", "p2": "optional:point"},
    requires=["p1 is None or spec.ec.on_curve(p1[0], p1[1])", "p2 is None or spec.ec.on_curve(p2[0], p2[1])"],
    cases=[Case("ok", ensures={"textbook_law": "result == spec.ec.ec_add(p1, p2)",
                               "closed_range": "result is None or (0 <= result[0] < spec.ec.P and 0 <= result[1] < spec.ec.P)"})],
    options={"native_gen": _pairs, "nla": False, "feas_ms": 400, "lemmas": ["sq_eq", "no_two_torsion", "pow_zero"],
             "fixed_args": {"a": 0, "b": 7}, "assumptions": FIELD},
    witnesses=[],
))
register(fn_contract(
    "C03.point_negate", P, f"{EC}.point_negate", {"p": "point"}, requires=["0 <= p[1] < spec.ec.P"],
    cases=[Case("ok", ensures={"neg": "result == (p[0], (spec.ec.P - p[1]) % spec.ec.P)"})],
    options={"fixed_args": {"a": 0, "b": 7}},
    witnesses=[{"p": (5, 0)}, {"p": (5, 7)}],
))
register(fn_contract(
    "C03.point_is_on_curve", P + ["C14"], f"{EC}.point_is_on_curve", {"x": "int", "y": "int"},
    cases=[Case("in_field", when="0 <= x < spec.ec.P and 0 <= y < spec.ec.P", ensures={"equation": "result == spec.ec.on_curve(x, y)"}),
           Case("out_of_field", when="otherwise", raises=(ValueError,))],
    options={"fixed_args": {"a": 0, "b": 7}, "nla": False},
    witnesses=[{"x": 0x79BE667EF9DCBBAC55A06295CE870B07029BFCDB2DCE28D959F2815B16F81798, "y": 0x483ADA7726A3C4655DA4FBFC0E1108A8FD17B448A68554199C47D08FFB10D4B8}, {"x": 1, "y": 1}, {"x": -1, "y": 1}],
))

# ---- private keys and key generation
register(fn_contract(
    "C03.privkey_int", P + ["C01", "C09", "C14"], "bits.utils.privkey_int", {"privkey_": "bytes"},
    cases=[Case("valid", when=f"len(privkey_) == 32 and 0 < int.from_bytes(privkey_, 'big') < {N}",
                ensures={"value": "result == int.from_bytes(privkey_, 'big')"}),
           Case("refused", when="otherwise", raises=(AssertionError,))],
    returns="int",
    witnesses=[{"privkey_": b"\x00" * 32}, {"privkey_": b"\x00" * 31 + b"\x01"}, {"privkey_": b"\xff" * 32}, {"privkey_": b"\x01" * 31}, {"privkey_": b"\x01" * 33},
               {"privkey_": (0xFFFFFFFFFFFFFFFFFFFFFFFFFFFFFFFEBAAEDCE6AF48A03BBFD25E8CD0364141).to_bytes(32, "big")},
               {"privkey_": (0xFFFFFFFFFFFFFFFFFFFFFFFFFFFFFFFEBAAEDCE6AF48A03BBFD25E8CD0364140).to_bytes(32, "big")}],
))
register(fn_contract(
    "C03.compute_point", P + ["C14"], "bits.utils.compute_point", {"privkey_": "bytes:32"},
    requires=[f"0 < int.from_bytes(privkey_, 'big') < {N}"],
    cases=[Case("ok", ensures={"is_kG": "result == spec.ec.smul(int.from_bytes(privkey_, 'big'), spec.ec.G)"})],
    modular=[SMUL], options={"assumptions": ["assumed contract C03.point_scalar_mul.assumed (incl. A-order: k*G != O for 0 < k < n)"]},
    witnesses=[{"privkey_": b"\x00" * 31 + b"\x01"}, {"privkey_": bytes.fromhex("c3e7b149ad167dc83a5653a9eaae1cc50b36793bfdc050d8efab831d04b876a7")}],
))
register(Theorem(
    "C03.keys.key", P, params={"draws": "list:int"}, body="spec.ec.key_with_draws(draws)",
    cases=[Case("ok", ensures={"length": "len(result) == 32", "in_range": f"1 <= int.from_bytes(result, 'big') < {N}"})],
    fuc=["bits.keys.key"],
    options={"native_gen": lambda rng: {"draws": [rng.choice([0, 1, 2, 2**255, 0xFFFFFFFFFFFFFFFFFFFFFFFFFFFFFFFEBAAEDCE6AF48A03BBFD25E8CD0364140])]},
             "assumptions": ["A-rng: secrets.randbelow(n) returns any k with 0 <= k < n (every such k is covered)"]},
    witnesses=[{"draws": [0]}, {"draws": [1]}, {"draws": [0xFFFFFFFFFFFFFFFFFFFFFFFFFFFFFFFEBAAEDCE6AF48A03BBFD25E8CD0364140]}],
))
