"""C04 (and the transaction-level part of C05): tx_deser reports the consensus identifiers, the raw bytes, the fields
and the leftover, whatever follows the transaction in the buffer.  Structural shapes (numbers of inputs / outputs /
witness items are fixed per theorem; every field VALUE and the trailing bytes are universally quantified)."""
from pyvc.contracts import Theorem, Case, register

P = ["C04", "C05"]
SHAPES = [  # (n_in, n_out, witness shape: None or items per input, script length bound or None)
    (1, 1, None, None), (2, 1, None, 252), (1, 2, None, 252), (2, 2, None, 252),
    (1, 1, [1], 252), (1, 1, [2], 252), (2, 1, [1, 0], 252), (2, 1, [0, 1], 252), (2, 2, [1, 1], 252),
]


def _gen(n_in, n_out, wshape, bound):
    def g(rng):
        rb = lambda n: bytes(rng.getrandbits(8) for _ in range(n))  # noqa
        ln = lambda: rng.choice([0, 1, 2, 25, 75, 76, 107, 252] + ([253, 300] if bound is None else []))  # noqa
        d = {"version": rng.choice([1, 2, 2**32 - 1]), "locktime": rng.choice([0, 1, 499999999, 2**32 - 1])}
        for i in range(n_in):
            d[f"op{i}"] = rb(36)
            d[f"ss{i}"] = rb(ln())
            d[f"sq{i}"] = rng.choice([b"\xff\xff\xff\xff", b"\xfe\xff\xff\xff", b"\x00\x00\x00\x00", rb(4)])
        for j in range(n_out):
            d[f"v{j}"] = rng.choice([0, 1, 546, 21 * 10**14, 2**63, 2**64 - 1])
            d[f"pk{j}"] = rb(ln())
        if wshape:
            for i, k in enumerate(wshape):
                for t in range(k):
                    d[f"w{i}_{t}"] = rb(rng.choice([0, 1, 33, 72, 252]))
        # trailing data: empty, one byte, bytes that also occur inside the transaction, a copy of the transaction
        import spec
        ins = [(d[f"op{i}"], d[f"ss{i}"], d[f"sq{i}"]) for i in range(n_in)]
        outs = [(d[f"v{j}"], d[f"pk{j}"]) for j in range(n_out)]
        wits = None if not wshape else [[d[f"w{i}_{t}"] for t in range(k)] for i, k in enumerate(wshape)]
        s = spec.txser.ser(d["version"], ins, outs, wits, d["locktime"])
        k = rng.random()
        a = rng.randrange(len(s))
        d["trailing"] = b"" if k < 0.2 else rb(1) if k < 0.3 else s[a:a + rng.choice([1, 2, 4, 8])] if k < 0.6 else s if k < 0.8 else rb(rng.choice([3, 40]))
        return d
    return g


for n_in, n_out, wshape, bound in SHAPES:
    params = {"version": "int", "locktime": "int", "trailing": "bytes"}
    reqs = ["0 <= version < 2**32", "0 <= locktime < 2**32"]
    for i in range(n_in):
        params.update({f"op{i}": "bytes:36", f"ss{i}": "bytes", f"sq{i}": "bytes:4"})
        reqs.append(f"len(ss{i}) <= {bound if bound is not None else '0xFFFFFFFF'}")
    for j in range(n_out):
        params.update({f"v{j}": "int", f"pk{j}": "bytes"})
        reqs += [f"0 <= v{j} < 2**64", f"len(pk{j}) <= {bound if bound is not None else '0xFFFFFFFF'}"]
    wits = "None"
    if wshape:
        stacks = []
        for i, k in enumerate(wshape):
            for t in range(k):
                params[f"w{i}_{t}"] = "bytes"
                reqs.append(f"len(w{i}_{t}) <= 252")
            stacks.append("[" + ", ".join(f"w{i}_{t}" for t in range(k)) + "]")
        wits = "[" + ", ".join(stacks) + "]"
    ins = "[" + ", ".join(f"(op{i}, ss{i}, sq{i})" for i in range(n_in)) + "]"
    outs = "[" + ", ".join(f"(v{j}, pk{j})" for j in range(n_out)) + "]"
    name = f"C04.tx_deser.{n_in}in_{n_out}out_" + ("legacy" if not wshape else "wit" + "".join(str(k) for k in wshape))
    ens = {
        "txid": f"result[0]['txid'] == spec.txser.dsha(spec.txser.ser_nowit(version, {ins}, {outs}, locktime)).hex()",
        "wtxid": "result[0]['wtxid'] == spec.txser.dsha(s).hex()",
        "raw": "result[0]['raw'] == s.hex()",
        "leftover": "result[1] == trailing",
        "version_locktime": "result[0]['version'] == version and result[0]['locktime'] == locktime",
        "inputs": f"result[0]['txins'] == [spec.txser.rec_in(i) for i in {ins}]",
        "outputs": f"result[0]['txouts'] == [spec.txser.rec_out(o) for o in {outs}]",
    }
    if wshape:
        ens["witnesses"] = "result[0]['witnesses'] == [[d.hex() for d in w] for w in %s]" % wits
    else:
        ens["legacy_ids_equal"] = "result[0]['txid'] == result[0]['wtxid']"
    register(Theorem(
        name, P, params=params, requires=reqs,
        lets={"s": f"spec.txser.ser(version, {ins}, {outs}, {wits}, locktime)"},
        body=f"bits.tx.tx_deser(spec.txser.ser(version, {ins}, {outs}, {wits}, locktime) + trailing, include_raw=True)",
        cases=[Case("ok", ensures=ens)],
        fuc=["bits.tx.tx_deser", "bits.tx.txin_deser", "bits.tx.txout_deser", "bits.script.utils.decode_script", "bits.tx.tx", "bits.tx.txin", "bits.tx.txout"],
        options={"native_gen": _gen(n_in, n_out, wshape, bound), "gen_budget_s": 500},
        witnesses=[],
    ))

# ---- inside a block: every transaction is reported with its own ids and raw bytes (the leftover of one is the next)
_I = lambda k: f"[(opa{k}, ssa{k}, sqa{k})]"  # noqa
_O = lambda k: f"[(va{k}, pka{k})]"  # noqa
_params = {"hdr": "bytes:80"}
_reqs = []
for k in (0, 1):
    _params.update({f"vera{k}": "int", f"lta{k}": "int", f"opa{k}": "bytes:36", f"ssa{k}": "bytes", f"sqa{k}": "bytes:4", f"va{k}": "int", f"pka{k}": "bytes"})
    _reqs += [f"0 <= vera{k} < 2**32", f"0 <= lta{k} < 2**32", f"len(ssa{k}) <= 252", f"len(pka{k}) <= 252", f"0 <= va{k} < 2**64"]
_S = lambda k: f"spec.txser.ser(vera{k}, {_I(k)}, {_O(k)}, None, lta{k})"  # noqa
register(Theorem(
    "C04.block_deser.two_txs", ["C04", "C15"], params=_params, requires=_reqs,
    body=f"bits.blockchain.block_deser(bits.blockchain.block_ser(hdr, [{_S(0)}, {_S(1)}]))",
    cases=[Case("ok", ensures={
        "count": "len(result['txns']) == 2",
        "ids": f"[t['txid'] for t in result['txns']] == [spec.txser.dsha({_S(0)}).hex(), spec.txser.dsha({_S(1)}).hex()]",
        "raw_in_order": f"[t['raw'] for t in result['txns']] == [{_S(0)}.hex(), {_S(1)}.hex()]",
        "header": "result['prev_blockheaderhash'] == hdr[4:36].hex() and result['merkle_root_hash'] == hdr[36:68].hex() and "
                  "result['version'] == int.from_bytes(hdr[:4], 'little') and result['nNonce'] == int.from_bytes(hdr[76:], 'little')"})],
    fuc=["bits.blockchain.block_deser", "bits.blockchain.block_ser", "bits.blockchain.block_header_deser", "bits.tx.tx_deser"],
    witnesses=[{"hdr": bytes(range(80)), **{f"{n}{k}": v for k in (0, 1) for n, v in
                (("vera", 1), ("lta", 0), ("opa", bytes([k + 1]) * 36), ("ssa", b"\x51" * (k + 1)), ("sqa", b"\xff" * 4), ("va", 50 * 10**8), ("pka", b"\x6a"))}}],
))
