"""C05 (and shared by C04, C13, C15, C17): CompactSize encoder / parser."""
from pyvc.contracts import Theorem, Case, fn_contract, register

U64 = "0xFFFFFFFFFFFFFFFF"

register(fn_contract(
    "C05.compact_size_uint", ["C05", "C04", "C13", "C15", "C17"],
    "bits.utils.compact_size_uint", {"integer": "int"},
    cases=[
        Case("in_range", when=f"0 <= integer <= {U64}",
             ensures={"canonical": "result == spec.compact_size(integer)",
                      "length": "len(result) == spec.compact_size_len(integer)"}),
        Case("out_of_range", when=f"integer < 0 or integer > {U64}", raises=(ValueError,)),
    ],
    witnesses=[{"integer": 0}, {"integer": 252}, {"integer": 253}, {"integer": 65535}, {"integer": 65536},
               {"integer": 2**32 - 1}, {"integer": 2**32}, {"integer": 2**64 - 1}, {"integer": -1}, {"integer": 2**64}],
))

register(Theorem(
    "C05.compact_size.roundtrip", ["C05", "C04", "C13", "C15", "C17"],
    params={"i": "int", "t": "bytes"},
    requires=[f"0 <= i <= {U64}"],
    body="bits.utils.parse_compact_size_uint(bits.utils.compact_size_uint(i) + t)",
    cases=[Case("ok", ensures={"inverse": "result == (i, t)"})],
    fuc=["bits.utils.compact_size_uint", "bits.utils.parse_compact_size_uint"],
    witnesses=[{"i": 0, "t": b""}, {"i": 253, "t": b"\x01"}, {"i": 2**32, "t": b"\xff" * 3}],
))
