"""C05 / C04: transaction element serialisers and parsers (loop-free)."""
from pyvc.contracts import Theorem, Case, fn_contract, register

U64 = "0xFFFFFFFFFFFFFFFF"
P = ["C05", "C04"]

register(fn_contract(
    "C05.outpoint", P + ["C15"], "bits.tx.outpoint", {"txid_": "bytes:32", "index": "int"},
    cases=[Case("ok", when="0 <= index < 2**32",
                ensures={"layout": "result == txid_ + index.to_bytes(4, 'little')", "len": "len(result) == 36"}),
           Case("bad_index", when="index < 0 or index >= 2**32", raises=(OverflowError,))],
    witnesses=[{"txid_": b"\x11" * 32, "index": 0}, {"txid_": b"\x00" * 32, "index": 2**32 - 1}],
))

register(fn_contract(
    "C05.txin", P + ["C15"], "bits.tx.txin", {"prev_outpoint": "bytes:36", "script_sig": "bytes", "sequence": "bytes:4"},
    requires=[f"len(script_sig) <= {U64}"],
    cases=[Case("ok", ensures={"layout": "result == prev_outpoint + spec.compact_size(len(script_sig)) + script_sig + sequence",
                               "outpoint_first": "result[:36] == prev_outpoint",
                               "sequence_last": "result[-4:] == sequence"})],
    witnesses=[{"prev_outpoint": b"\x01" * 36, "script_sig": b"", "sequence": b"\xff" * 4},
               {"prev_outpoint": b"\x01" * 36, "script_sig": b"\x02" * 253, "sequence": b"\xfe\xff\xff\xff"}],
))

register(Theorem(
    "C05.txin.roundtrip", P,
    params={"op": "bytes:36", "s": "bytes", "q": "bytes:4", "t": "bytes"},
    requires=[f"len(s) <= {U64}"],
    body="bits.tx.txin_deser(bits.tx.txin(op, s, q) + t)",
    cases=[Case("ok", ensures={
        "fields": "result[0] == {'txid': op[:32].hex(), 'vout': int.from_bytes(op[32:36], 'little'), "
                  "'scriptsig': s.hex(), 'sequence': q.hex()}",
        "leftover": "result[1] == t"})],
    fuc=["bits.tx.txin", "bits.tx.txin_deser", "bits.utils.compact_size_uint", "bits.utils.parse_compact_size_uint"],
    witnesses=[{"op": b"\x01" * 36, "s": b"", "q": b"\xff" * 4, "t": b""},
               {"op": bytes(range(36)), "s": b"\x51" * 300, "q": b"\xfe\xff\xff\xff", "t": b"\x00\x01"}],
))

register(fn_contract(
    "C05.txout", P + ["C15"], "bits.tx.txout", {"value": "int", "script_pubkey": "bytes"},
    requires=[f"len(script_pubkey) <= {U64}"],
    cases=[Case("ok", when="0 <= value < 2**64",
                ensures={"layout": "result == value.to_bytes(8, 'little') + spec.compact_size(len(script_pubkey)) + script_pubkey"}),
           Case("bad_value", when="value < 0 or value >= 2**64", raises=(OverflowError,))],
    witnesses=[{"value": 0, "script_pubkey": b""}, {"value": 2**64 - 1, "script_pubkey": b"\x6a" * 65536}],
))

register(Theorem(
    "C05.txout.roundtrip", P,
    params={"v": "int", "s": "bytes", "t": "bytes"},
    requires=["0 <= v < 2**64", f"len(s) <= {U64}"],
    body="bits.tx.txout_deser(bits.tx.txout(v, s) + t)",
    cases=[Case("ok", ensures={"fields": "result[0] == {'value': v, 'scriptpubkey': s.hex()}",
                               "leftover": "result[1] == t"})],
    fuc=["bits.tx.txout", "bits.tx.txout_deser"],
    witnesses=[{"v": 0, "s": b"", "t": b""}, {"v": 21 * 10**14, "s": b"\x00" * 253, "t": b"\x99"}],
))
