"""C06: segwit addresses.  BOUNDED STAND-INS ONLY - nothing here is a proof.

bech32's checksum is a BCH code over GF(32) computed with shifts and XORs on 30-bit words, and the parser works with
bytes.isupper/islower/lower/split.  The symbolic engine treats XOR as an uninterpreted function of integers and has no
model of those string methods, so no obligation over these functions can be discharged deductively (see DESIGN.md).
What stands in: the runtime contracts below, evaluated on the stated finite input sets against an independent
transcription of the BIP173/BIP350 reference implementation."""
import random

from pyvc.contracts import Theorem, Case, register

P = ["C06"]
U = "bits.utils"
FUC = [f"{U}.segwit_addr", f"{U}.decode_segwit_addr", f"{U}.assert_valid_segwit", f"{U}.is_segwit_addr", f"{U}.is_addr",
       "bits.bips.bip173.bech32_encode", "bits.bips.bip173.bech32_decode", "bits.bips.bip173.parse_bech32",
       "bits.bips.bip173.assert_valid_bech32", "bits.bips.bip173.bech32_polymod", "bits.bips.bip173.bech32_create_checksum",
       "bits.bips.bip173.bech32_verify_checksum", "bits.bips.bip173.bech32_hrp_expand"]


def _programs(n, rng):
    yield bytes(n)
    yield b"\xff" * n
    yield (1 << rng.randrange(8 * n)).to_bytes(n, "big")
    yield bytes([1]) + bytes(n - 1)
    yield bytes(n - 1) + bytes([1])
    yield bytes(rng.getrandbits(8) for _ in range(n))


def _roundtrip_inputs():
    rng = random.Random(6)
    for net in ("mainnet", "testnet", "regtest"):
        for v in range(17):
            for n in ((20, 32) if v == 0 else range(2, 41)):
                for prog in _programs(n, rng):
                    yield {"network": net, "version": v, "program": prog}


def _roundtrip_more(seed):
    rng = random.Random(1000 + seed)
    for _ in range(40000):
        v = rng.randrange(17)
        n = rng.choice((20, 32)) if v == 0 else rng.randrange(2, 41)
        yield {"network": rng.choice(["mainnet", "testnet", "regtest"]), "version": v, "program": bytes(rng.getrandbits(8) for _ in range(n))}


register(Theorem(
    "C06.roundtrip.bounded", P, params={"network": ("enum", ["mainnet", "testnet", "regtest"]), "version": "int", "program": "bytes"},
    requires=["spec.bip173.allowed(version, program)"],
    body="spec.bip173.check_roundtrip(network, version, program)",
    cases=[Case("ok", ensures={k: f"result[{k!r}]" for k in ("is_reference_encoding", "max_90", "decodes_back", "accepted", "is_addr", "upper_case_accepted")})],
    fuc=FUC,
    options={"bounded_only": True, "bounded_inputs": _roundtrip_inputs, "thorough_inputs": _roundtrip_more,
             "thorough_bound": "40 000 random (network, version, length, program) tuples drawn from VERIF_SEED",
             "bound": "3 networks x versions 0..16 x every allowed program length (20, 32 for v0; 2..40 otherwise) x 6 contents "
                      "(all-zero, all-ones, single bit, first byte 1, last byte 1, random) = 11 268 cases; compared with an independent "
                      "transcription of the BIP173/BIP350 reference implementation.  BOUNDED, not proved"},
    witnesses=[],
))

VECTORS_VALID = [b"BC1QW508D6QEJXTDG4Y5R3ZARVARY0C5XW7KV8F3T4", b"tb1qrp33g0q5c5txsp9arysrx4k6zdkfs4nce4xj0gdcccefvpysxf3q0sl5k7",
                 b"bc1pw508d6qejxtdg4y5r3zarvary0c5xw7kw508d6qejxtdg4y5r3zarvary0c5xw7kt5nd6y", b"BC1SW50QGDZ25J",
                 b"bc1zw508d6qejxtdg4y5r3zarvaryvaxxpcs", b"tb1qqqqqp399et2xygdj5xreqhjjvcmzhxw4aywxecjdzew6hylgvsesrxh6hy",
                 b"tb1pqqqqp399et2xygdj5xreqhjjvcmzhxw4aywxecjdzew6hylgvsesf3hn0c", b"bc1p0xlxvlhemja6c4dqv22uapctqupfhlxm9h8z3k2e72q4k9hcz7vqzk5jj0"]
VECTORS_INVALID = [b"tc1p0xlxvlhemja6c4dqv22uapctqupfhlxm9h8z3k2e72q4k9hcz7vq5zuyut", b"bc1p0xlxvlhemja6c4dqv22uapctqupfhlxm9h8z3k2e72q4k9hcz7vqh2y7hd",
                   b"tb1z0xlxvlhemja6c4dqv22uapctqupfhlxm9h8z3k2e72q4k9hcz7vqglt7rf", b"BC1S0XLXVLHEMJA6C4DQV22UAPCTQUPFHLXM9H8Z3K2E72Q4K9HCZ7VQ54WELL",
                   b"bc1qw508d6qejxtdg4y5r3zarvary0c5xw7kemeawh", b"tb1q0xlxvlhemja6c4dqv22uapctqupfhlxm9h8z3k2e72q4k9hcz7vq24jc47",
                   b"bc1p38j9r5y49hruaue7wxjce0updqjuyyx0kh56v8s25huc6995vvpql3jow4", b"BC130XLXVLHEMJA6C4DQV22UAPCTQUPFHLXM9H8Z3K2E72Q4K9HCZ7VQ7ZWS8R",
                   b"bc1pw5dgrnzv", b"bc1p0xlxvlhemja6c4dqv22uapctqupfhlxm9h8z3k2e72q4k9hcz7v8n0nx0muaewav253zgeav",
                   b"BC1QR508D6QEJXTDG4Y5R3ZARVARYV98GJ9P", b"tb1p0xlxvlhemja6c4dqv22uapctqupfhlxm9h8z3k2e72q4k9hcz7vq47Zagq",
                   b"bc1p0xlxvlhemja6c4dqv22uapctqupfhlxm9h8z3k2e72q4k9hcz7v07qwwzcrf", b"tb1p0xlxvlhemja6c4dqv22uapctqupfhlxm9h8z3k2e72q4k9hcz7vpggkg4j",
                   b"bc1gmk9yu", b"bc1", b"1", b"", b"bc1q", b"bc1q9zpgru"]


def _with_checksum(hrp, data5, const):
    import spec
    s = spec.bip173
    pm = s.polymod(s.hrp_expand(hrp) + data5 + [0] * 6) ^ const
    return hrp + b"1" + bytes(s.CHARSET[d] for d in data5 + [(pm >> 5 * (5 - i)) & 31 for i in range(6)])


def _classify_inputs():
    import spec
    s = spec.bip173
    rng = random.Random(66)
    for v in VECTORS_VALID + VECTORS_INVALID:
        yield {"s": v}
    alphabet = list(s.CHARSET) + [ord("b"), ord("i"), ord("o"), ord("1"), ord("B"), ord("Q"), 0x00, 0x20, 0x7F, 0x80, 0xFF]
    short = [s.encode(b"bc", 1, b"\x75\x1e"), s.encode(b"tb", 16, b"\x00\x00"), s.encode(b"bcrt", 2, b"\x01\x02\x03")]
    # exhaustive single substitutions on short addresses (every position x every candidate byte)
    for a in short:
        for i in range(len(a)):
            for c in alphabet:
                yield {"s": a[:i] + bytes([c]) + a[i + 1:]}
    # two substitutions (sampled), case flips, truncation / extension
    base = short + [s.encode(b"bc", 0, bytes(20)), s.encode(b"bc", 0, bytes(range(32))), s.encode(b"tb", 1, bytes(range(32))), s.encode(b"bc", 16, b"\xff" * 40)]
    for a in base:
        for _ in range(300):
            b = bytearray(a)
            for _k in range(rng.choice([2, 2, 3, 4])):
                b[rng.randrange(len(b))] = rng.choice(alphabet)
            yield {"s": bytes(b)}
        for i in range(len(a)):
            yield {"s": a[:i] + a[i:i + 1].upper() + a[i + 1:]}
            yield {"s": a[:i]}
        yield {"s": a + b"q"}
        yield {"s": a.upper()}
    # checksum-constant swap, bad padding, over-long padding, wrong hrp, invalid version, empty program - all with VALID checksums
    for hrp in (b"bc", b"tb", b"bcrt", b"tc", b"BC", b"bc1", b""):
        for ver in (0, 1, 2, 16, 17, 31):
            for n in (0, 1, 2, 19, 20, 21, 32, 33, 40, 41):
                prog = bytes(rng.getrandbits(8) for _ in range(n)) if rng.random() < 0.7 else bytes(n)
                d5 = s.convertbits(prog, 8, 5, True)
                for const in (s.BECH32_CONST, s.BECH32M_CONST, 0x3FFFFFFF):
                    yield {"s": _with_checksum(hrp, [ver] + d5, const)}
                if d5:
                    bad = list(d5)
                    bad[-1] |= 1                                                      # non-zero padding bit
                    yield {"s": _with_checksum(hrp, [ver] + bad, s.BECH32_CONST if ver == 0 else s.BECH32M_CONST)}
                    yield {"s": _with_checksum(hrp, [ver] + d5 + [0], s.BECH32_CONST if ver == 0 else s.BECH32M_CONST)}   # over-long padding
    # arbitrary byte strings
    for _ in range(1500):
        n = rng.choice([0, 1, 2, 7, 8, 14, 42, 62, 90, 91, 120])
        yield {"s": bytes(rng.choice(alphabet) if rng.random() < 0.8 else rng.getrandbits(8) for _ in range(n))}
        yield {"s": b"bc1" + bytes(rng.choice(alphabet) for _ in range(rng.choice([0, 1, 5, 6, 7, 20])))}


def _classify_more(seed):
    import spec
    s = spec.bip173
    rng = random.Random(2000 + seed)
    alphabet = list(s.CHARSET) + [ord("b"), ord("i"), ord("o"), ord("1"), ord("B"), ord("Q"), 0x00, 0x20, 0x7F, 0x80, 0xFF]
    for _ in range(60000):
        v = rng.randrange(17)
        n = rng.choice((20, 32)) if v == 0 else rng.randrange(2, 41)
        a = bytearray(s.encode(rng.choice([b"bc", b"tb", b"bcrt"]), v, bytes(rng.getrandbits(8) for _ in range(n))))
        for _k in range(rng.choice([0, 1, 1, 2, 3, 4])):
            a[rng.randrange(len(a))] = rng.choice(alphabet)
        yield {"s": bytes(a) if rng.random() < 0.9 else bytes(a).upper()}


register(Theorem(
    "C06.accept_set.bounded", P, params={"s": "bytes"},
    body="spec.bip173.check_classify(s)",
    cases=[Case("ok", ensures={k: f"result[{k!r}]" for k in ("bool", "is_addr_bool", "iff_valid", "is_addr_implied")})],
    fuc=FUC,
    options={"bounded_only": True, "bounded_inputs": _classify_inputs, "thorough_inputs": _classify_more,
             "thorough_bound": "60 000 random valid addresses with 0-4 random substitutions (10 % upper-cased) drawn from VERIF_SEED",
             "bound": "the BIP173/BIP350 vector lists; every single-byte substitution (43 candidate bytes incl. non-alphabet, upper case, "
                      "NUL, 0x80, 0xFF) at every position of three short addresses; 2 100 sampled 2-4 substitutions, all case flips, truncations "
                      "and extensions of seven addresses; 1 470 checksum-valid strings over 7 HRPs x 6 versions x 10 program lengths x 3 checksum "
                      "constants plus non-zero / over-long padding; 3 000 arbitrary byte strings (lengths 0..120).  is_segwit_addr must return a bool "
                      "equal to the reference decoder's verdict; is_addr must return a bool.  BOUNDED, not proved"},
    witnesses=[],
))
