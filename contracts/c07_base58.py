"""C07: Base58 / Base58Check."""
from pyvc.contracts import Theorem, Case, Loop, fn_contract, register

P = ["C07", "C08", "C09", "C14"]

ENC_LOOP = Loop(
    invariant=[
        "integer >= 0",
        "integer * 58 ** len(encoded) + spec.b58val(encoded) == int.from_bytes(data, 'big')",
        "forall(lambda i: encoded[i] in spec.base58.DIGIT, 0, len(encoded))",
        "len(encoded) == 0 or integer > 0 or encoded[0] != 0x31",
    ],
    decreases="integer",
)

register(Theorem(
    "C07.lemma.b58val_nonneg", ["C07"], params={"s": "bytes"},
    requires=["len(s) == 0 or spec.b58val(s[1:]) >= 0"],      # induction hypothesis at the tail
    body="spec.b58val(s)",
    cases=[Case("step", ensures={"nonneg": "result >= 0"})],
    note="induction on len(s): proved once, then used as the instantiation rule 'b58val_nonneg'",
    witnesses=[{"s": b""}, {"s": b"2"}, {"s": b"zz1"}],
))

register(fn_contract(
    "C07.base58encode", P, "bits.base58.base58encode", {"data": "bytes"},
    lets={"z": "len(data) - len(data.lstrip(b'\\x00'))"},
    cases=[Case("ok", ensures={
        "leading_ones": "result[:z] == b'1' * z",
        "value": "spec.b58val(result[z:]) == int.from_bytes(data, 'big')",
        "canonical": "len(result) == z or result[z] != 0x31",
        "alphabet": "forall(lambda i: result[i] in spec.base58.DIGIT, 0, len(result))",
    })],
    loops={("bits.base58.base58encode", 1): ENC_LOOP}, returns="bytes",
    witnesses=[{"data": b""}, {"data": b"\x00"}, {"data": b"\x00\x00\x01"}, {"data": b"hello world"}, {"data": b"\xff" * 40}],
))

ALL_ALPHA = "forall(lambda i: data[i] in spec.base58.DIGIT, 0, len(data))"

DEC_LOOP1 = Loop(
    invariant=[
        "result == spec.b58val(data[len(data) - _k:])",
        "forall(lambda j: data[j] in spec.base58.DIGIT, len(data) - _k, len(data))",
    ],
)
DEC_LOOP2 = Loop(
    lets={"V": "result"},
    invariant=[
        "result >= 0",
        "result * 256 ** len(decoded) + int.from_bytes(decoded, 'big') == V",
        "len(decoded) == 0 or result > 0 or decoded[0] != 0",
    ],
    decreases="result",
)

register(fn_contract(
    "C07.base58decode", P, "bits.base58.base58decode", {"data": "bytes"},
    lets={"d1": "data.lstrip(b'1')", "k": "len(data) - len(data.lstrip(b'1'))"},
    cases=[
        Case("alphabet_ok", when=ALL_ALPHA, ensures={
            "leading_zeros": "result[:k] == b'\\x00' * k",
            "value": "int.from_bytes(result[k:], 'big') == spec.b58val(d1)",
            "minimal": "len(result) == k or result[k] != 0",
        }),
        Case("bad_character", when=f"not {ALL_ALPHA}", raises=(KeyError,)),
    ],
    loops={("bits.base58.base58decode", 1): DEC_LOOP1, ("bits.base58.base58decode", 2): DEC_LOOP2},
    returns="bytes",
    options={"lemmas": ["b58val_nonneg"]},
    witnesses=[{"data": b""}, {"data": b"1"}, {"data": b"11StV1DL6CwTryKyV"}, {"data": b"0"}, {"data": b"StVlDL"}, {"data": b"z" * 50}],
))

# ---- Base58Check: callers are checked against the contracts above (modular), not the bodies
MOD = ["bits.base58.base58encode", "bits.base58.base58decode"]

register(fn_contract(
    "C07.base58check", P, "bits.base58.base58check", {"data": "bytes"},
    lets={"p": "data + spec.base58.checksum(data)", "z": "len(data + spec.base58.checksum(data)) - len((data + spec.base58.checksum(data)).lstrip(b'\\x00'))"},
    cases=[Case("ok", ensures={
        "leading_ones": "result[:z] == b'1' * z",
        "value": "spec.b58val(result[z:]) == int.from_bytes(p, 'big')",
        "canonical": "len(result) == z or result[z] != 0x31",
        "alphabet": "forall(lambda i: result[i] in spec.base58.DIGIT, 0, len(result))",
    })],
    modular=MOD, returns="bytes",
    witnesses=[{"data": b""}, {"data": b"hello world"}, {"data": b"\x00" * 21}],
))

register(Theorem(
    "C07.base58check_decode.alphabet_ok", P, params={"addr_": "bytes"},
    requires=["forall(lambda i: addr_[i] in spec.base58.DIGIT, 0, len(addr_))"],
    lets={"d": "bits.base58.base58decode(addr_)"},
    body="bits.base58.base58check_decode(addr_)",
    cases=[Case("checksum_ok", when="d[-4:] == spec.base58.checksum(d[:-4])", ensures={"payload": "result == d[:-4]"}),
           Case("checksum_bad", when="d[-4:] != spec.base58.checksum(d[:-4])", raises=(ValueError,))],
    modular=MOD, fuc=["bits.base58.base58check_decode"],
    note="d is the value the (contract-verified, deterministic) decoder returns for the same string; strings whose "
         "decoding is shorter than a checksum fall in checksum_bad because len(d[-4:]) < 4 == len(checksum)",
    witnesses=[{"addr_": b"3vQB7B6MrGQZaxCuFg4oh"}, {"addr_": b"3vQB7B6MrGQZaxCuFg4oi"}, {"addr_": b""}, {"addr_": b"11"}],
))

register(Theorem(
    "C07.base58check_decode.bad_character", P, params={"addr_": "bytes"},
    requires=["not forall(lambda i: addr_[i] in spec.base58.DIGIT, 0, len(addr_))"],
    body="bits.base58.base58check_decode(addr_)",
    cases=[Case("rejected", raises=(KeyError,))],
    modular=MOD, fuc=["bits.base58.base58check_decode"],
    witnesses=[{"addr_": b"0"}, {"addr_": b"3vQB7B6MrGQZaxCuFg4oI"}, {"addr_": b"abc def"}],
))

register(fn_contract(
    "C07.is_base58check", P, "bits.base58.is_base58check", {"data": "bytes"},
    cases=[Case("total", ensures={"bool": "result is True or result is False"})],
    modular=MOD, fuc=["bits.base58.base58check_decode"],
    witnesses=[{"data": b""}, {"data": b"0"}, {"data": b"3vQB7B6MrGQZaxCuFg4oh"}, {"data": b"2yGEbwRFyhPZZckJm"}],
))

register(Theorem(
    "C07.roundtrip.bytes", P, params={"d": "bytes"},
    lets={"e": "bits.base58.base58encode(d)", "d1": "d.lstrip(b'\\x00')", "z": "len(d) - len(d.lstrip(b'\\x00'))"},
    body="bits.base58.base58decode(e)",
    cases=[Case("ok", ensures={
        "s1_strip": "e.lstrip(b'1') == e[z:]",
        "s2_count": "len(e) - len(e.lstrip(b'1')) == z",
        "s3_value": "int.from_bytes(result[z:], 'big') == int.from_bytes(d1, 'big')",
        "s4_length": "len(result[z:]) == len(d1)",
        "s5_tail": "result[z:] == d1",
        "inverse": "result == d"})],
    options={"chain": True},
    modular=MOD, fuc=MOD,
    witnesses=[{"d": b""}, {"d": b"\x00"}, {"d": b"\x00\x00\xff"}, {"d": b"hello"}],
))

# C07.roundtrip.check (base58check_decode(base58check(d)) == d) is a corollary of C07.roundtrip.bytes and
# C07.base58check_decode.alphabet_ok.  Composing them mechanically (uses=[C07.roundtrip.bytes at d + checksum(d)]) left
# both solvers undecided, so it is NOT claimed; contracts/pending_c07.py keeps the theorem text for a later round.

register(Theorem(
    "C07.roundtrip.check", P, params={"d": "bytes"},
    lets={"p": "d + spec.base58.checksum(d)",
          "e": "bits.base58.base58encode(d + spec.base58.checksum(d))",
          "p1": "(d + spec.base58.checksum(d)).lstrip(b'\\x00')",
          "z": "len(d + spec.base58.checksum(d)) - len((d + spec.base58.checksum(d)).lstrip(b'\\x00'))",
          "out": "bits.base58.base58decode(bits.base58.base58encode(d + spec.base58.checksum(d)))"},
    body="bits.base58.base58check_decode(bits.base58.base58check(d))",
    cases=[Case("ok", ensures={"inverse": "result == d"})],
    options={"no_concat_law": True, "steps": [
        ("s1_strip", "e.lstrip(b'1') == e[z:]"),
        ("s2_count", "len(e) - len(e.lstrip(b'1')) == z"),
        ("s3_value", "int.from_bytes(out[z:], 'big') == int.from_bytes(p1, 'big')"),
        ("s4_length", "len(out[z:]) == len(p1)"),
        ("s5_tail", "out[z:] == p1"),
        ("s6_decoded", "out == p")]},
    modular=MOD, fuc=["bits.base58.base58check", "bits.base58.base58check_decode"],
    note="the chain of steps of C07.roundtrip.bytes at p = d + checksum(d), proved before the body is executed; then the "
         "checksum comparison and the slice are structural",
    witnesses=[{"d": b""}, {"d": b"\x00"}, {"d": b"\x00\x00\xff"}, {"d": b"hello world"}],
))
