"""C08: an address or public key maps to exactly its standard scriptPubKey; everything else is refused."""
from pyvc.contracts import Theorem, Case, fn_contract, register

P = ["C08"]
SP = "bits.script.utils.scriptpubkey"
MOD58 = ["bits.base58.base58encode", "bits.base58.base58decode"]
ISPOINT = "bits.utils.is_point@C14.is_point"

register(Theorem(
    "C08.p2pk", P, params={"pk": "bytes"}, requires=["spec.ec.sec1_ok(pk)"],
    body=f"{SP}(pk)",
    cases=[Case("ok", ensures={"p2pk": "result == bytes([len(pk)]) + pk + b'\\xac'"})],
    modular=[ISPOINT], fuc=[SP, "bits.script.utils.p2pk_script_pubkey"],
    options={"native_gen": lambda rng: {"pk": __import__("spec").ec.sec1_encode(*__import__("spec").ec.ec_mul(rng.randrange(1, 2**200), __import__("spec").ec.G), rng.random() < 0.5)}},
    witnesses=[{"pk": bytes.fromhex("0279BE667EF9DCBBAC55A06295CE870B07029BFCDB2DCE28D959F2815B16F81798")}],
))

for kind, vers, tmpl in (("p2pkh", {"mainnet": 0x00, "testnet": 0x6F, "regtest": 0x6F}, "b'\\x76\\xa9\\x14' + h + b'\\x88\\xac'"),
                         ("p2sh", {"mainnet": 0x05, "testnet": 0xC4, "regtest": 0xC4}, "b'\\xa9\\x14' + h + b'\\x87'")):
    register(Theorem(
        f"C08.roundtrip.{kind}", P, params={"h": "bytes:20", "net": ("enum", ["mainnet", "testnet", "regtest"])},
        lets={"addr": f"bits.utils.to_bitcoin_address(h, addr_type='{kind}', network=net)"},
        body=f"{SP}(bits.utils.to_bitcoin_address(h, addr_type='{kind}', network=net))",
        cases=[Case("ok", ensures={"template": f"result == {tmpl}"})],
        uses=[("C07.roundtrip.check", {"d": "bytes([%s[net]]) + h" % repr(vers)})],
        modular=MOD58 + [ISPOINT], fuc=[SP, "bits.utils.to_bitcoin_address"],
        witnesses=[{"h": b"\x63" * 20, "net": n} for n in ("mainnet", "testnet", "regtest")] + [{"h": b"\x00" * 20, "net": "mainnet"}],
    ))

register(Theorem(
    "C08.reject.unknown_version", P, params={"d": "bytes"},
    requires=["len(d) == 0 or d[0] not in (0x00, 0x6f, 0x05, 0xc4)"],
    body=f"{SP}(bits.base58.base58check(d))",
    cases=[Case("refused", raises=(ValueError,))],
    uses=[("C07.roundtrip.check", {"d": "d"})],
    modular=MOD58 + [ISPOINT], fuc=[SP],
    note="a checksum-valid Base58Check string whose payload is empty or starts with an unknown version byte is never mapped to a script",
    witnesses=[{"d": b""}, {"d": b"\x01" + b"\x11" * 20}, {"d": b"\x80" + b"\x11" * 32}],
))


# ---- segwit addresses: BOUNDED stand-in (the Bech32 layer is outside the verifier's reach, see C06)
def _segwit_inputs():
    import random
    rng = random.Random(8)
    for net in ("mainnet", "testnet", "regtest"):
        for v in range(17):
            for n in ((20, 32) if v == 0 else range(2, 41)):
                for prog in (bytes(n), b"\xff" * n, bytes(rng.getrandbits(8) for _ in range(n))):
                    yield {"net": net, "v": v, "prog": prog}


register(Theorem(
    "C08.segwit.bounded", P, params={"net": ("enum", ["mainnet", "testnet", "regtest"]), "v": "int", "prog": "bytes"},
    body=f"{SP}(bits.utils.segwit_addr(prog, witness_version=v, network=net))",
    cases=[Case("ok", ensures={"witness_program_script": "result == bytes([0 if v == 0 else 0x50 + v, len(prog)]) + prog"})],
    fuc=[SP, "bits.script.utils.p2wpkh_script_pubkey", "bits.script.utils.p2wsh_script_pubkey"],
    options={"bounded_only": True, "bounded_inputs": _segwit_inputs,
             "bound": "3 networks x versions 0..16 x every allowed program length (20/32 for v0, 2..40 otherwise) x {all-zero, all-0xff, random} "
                      "= 5 634 addresses: scriptpubkey(address) == OP_n <len> <program> (BIP141).  BOUNDED, not proved"},
    witnesses=[],
))
