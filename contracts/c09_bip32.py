"""C09: BIP32 child key derivation, extended-key serialisation, path derivation."""
from pyvc.contracts import Theorem, Case, fn_contract, register

P = ["C09"]
B = "bits.bips.bip32"
HD = "bits.wallet.hd"
EC = "bits.ecmath"
N = 0xFFFFFFFFFFFFFFFFFFFFFFFFFFFFFFFEBAAEDCE6AF48A03BBFD25E8CD0364141
GPT = (0x79BE667EF9DCBBAC55A06295CE870B07029BFCDB2DCE28D959F2815B16F81798, 0x483ADA7726A3C4655DA4FBFC0E1108A8FD17B448A68554199C47D08FFB10D4B8)
SMUL = f"{EC}.point_scalar_mul@C03.point_scalar_mul.assumed"
PADD = f"{EC}.point_add@C03.point_add.assumed"
PUBKEY = "bits.utils.pubkey@C14.pubkey"
POINT = "bits.utils.point@C14.point"
MOD58 = ["bits.base58.base58encode", "bits.base58.base58decode"]
GROUP = ["assumed contracts C03.point_scalar_mul.assumed / C03.point_add.assumed (group operations as spec symbols)",
         "A-order: k*G != O for 1 <= k < n"]
FIX = {"fixed_args": {"N": N, "G": GPT}, "nla": False, "feas_ms": 300}
IDX = [0, 1, 2**31 - 1, 2**31, 2**31 + 1, 2**32 - 1]


def _kci(rng):
    import spec
    k = rng.choice([1, 2, spec.ec.N - 1, rng.randrange(1, spec.ec.N)])
    return {"k": k, "c": bytes(rng.getrandbits(8) for _ in range(32)), "i": rng.choice(IDX + [rng.getrandbits(32)])}


register(fn_contract(
    "C09.CKDpriv", P, f"{B}.CKDpriv", {"k_parent": "int", "c_parent": "bytes:32", "i": "int"},
    requires=[f"1 <= k_parent < {N}", "0 <= i < 2**32"],
    cases=[Case("ok", when="spec.bip32.ckd_priv_ok(k_parent, c_parent, i)",
                ensures={"child": "result == spec.bip32.ckd_priv(k_parent, c_parent, i)",
                         "range": f"1 <= result[0] < {N}", "chain": "len(result[1]) == 32"}),
           Case("invalid_child", when="otherwise", raises=(AssertionError, ValueError))],
    modular=[SMUL, PUBKEY], returns=("tuple", ["int", "bytes:32"]),
    options={**FIX, "assumptions": GROUP,
             "native_gen": lambda rng: (lambda d: {"k_parent": d["k"], "c_parent": d["c"], "i": d["i"]})(_kci(rng))},
    witnesses=[{"k_parent": 1, "c_parent": bytes(32), "i": i} for i in IDX],
))


def _Kci(rng):
    import spec
    d = _kci(rng)
    return {"K_parent": spec.ec.ec_mul(d["k"], spec.ec.G), "c_parent": d["c"], "i": d["i"]}


register(fn_contract(
    "C09.CKDpub", P, f"{B}.CKDpub", {"K_parent": "point", "c_parent": "bytes:32", "i": "int"},
    requires=["spec.ec.on_curve(K_parent[0], K_parent[1])", "0 <= i < 2**32"],
    cases=[Case("hardened", when="i >= 2**31", raises=(ValueError,)),
           Case("ok", when="i < 2**31 and spec.bip32.ckd_pub_ok(K_parent, c_parent, i)",
                ensures={"child": "result == spec.bip32.ckd_pub(K_parent, c_parent, i)", "chain": "len(result[1]) == 32"}),
           Case("invalid_child", when="otherwise", raises=(AssertionError, ValueError))],
    modular=[SMUL, PADD, PUBKEY], returns=("tuple", ["optional:point", "bytes:32"]),
    options={**FIX, "assumptions": GROUP, "native_gen": _Kci},
    witnesses=[{"K_parent": GPT, "c_parent": bytes(32), "i": i} for i in IDX],
))

register(Theorem(
    "C09.commute", P, params={"k": "int", "c": "bytes:32", "i": "int"},
    requires=[f"1 <= k < {N}", "0 <= i < 2**31", "spec.bip32.ckd_priv_ok(k, c, i)"],
    lets={"child": f"{B}.CKDpriv(k, c, i)"},
    body=f"{B}.CKDpub({B}.N(k, c)[0], {B}.N(k, c)[1], i)",
    cases=[Case("ok", ensures={"child_scalar": "child[0] == (spec.bip32.il(k, c, i) + k) % spec.ec.N",
                               "same_key": "result[0] == spec.ec.smul((spec.bip32.il(k, c, i) + k) % spec.ec.N, spec.ec.G)", "same_chain": "result[1] == child[1]"})],
    modular=[SMUL, PADD, PUBKEY, f"{B}.CKDpriv@C09.CKDpriv"],
    fuc=[f"{B}.CKDpub", f"{B}.N", f"{B}.point", f"{B}.ser_p", f"{B}.ser_32", f"{B}.parse_256"],
    options={**FIX, "lemmas": ["smul_add"], "native_gen": _kci,
             "assumptions": GROUP + ["A-group (lemma smul_add): ((a + b) % n)*G == a*G + b*G - E(F_p) is an abelian group and n*G = O"]},
    witnesses=[{"k": 1, "c": bytes(32), "i": 0}, {"k": N - 1, "c": b"\x07" * 32, "i": 2**31 - 1}],
    note="N(CKDpriv(k, c, i)) == CKDpub(N(k, c), i) for every non-hardened index whenever the private child exists",
))


def _seed(rng):
    return {"seed": bytes(rng.getrandbits(8) for _ in range(rng.choice([16, 17, 32, 33, 64])))}


register(fn_contract(
    "C09.to_master_key", P, f"{B}.to_master_key", {"seed": "bytes"}, requires=["16 <= len(seed) <= 64"],
    cases=[Case("ok", when=f"1 <= spec.bip32.master(seed)[0] < {N}", ensures={"master": "result == spec.bip32.master(seed)", "chain": "len(result[1]) == 32"}),
           Case("invalid", when="otherwise", raises=(AssertionError,))],
    returns=("tuple", ["int", "bytes:32"]), options={"native_gen": _seed},
    witnesses=[{"seed": bytes.fromhex("000102030405060708090a0b0c0d0e0f")}],
))

XK = {"chain": "bytes:32", "depth": "int", "fp": "bytes:4", "child": "int", "testnet": "bool"}
XK_REQ = ["0 <= depth < 256", "0 <= child < 2**32", "depth != 0 or (fp == bytes(4) and child == 0)"]


def _xk(priv, net=None, master=None):
    def g(rng):
        import spec
        depth = 0 if master else rng.choice([1, 2, 255]) if master is False else rng.choice([0, 1, 2, 255])
        d = {"chain": bytes(rng.getrandbits(8) for _ in range(32)), "depth": depth,
             "fp": bytes(4) if depth == 0 else bytes(rng.getrandbits(8) for _ in range(4)),
             "child": 0 if depth == 0 else rng.choice(IDX + [rng.getrandbits(32)]),
             "testnet": (rng.random() < 0.5) if net is None else net}
        k = rng.choice([1, spec.ec.N - 1, rng.randrange(1, spec.ec.N)])
        if priv:
            d["k"] = k
        else:
            d["K"] = spec.ec.ec_mul(k, spec.ec.G)
        return d
    return g


for form, dexpr, cexpr in (("bytes", "bytes([depth])", "child.to_bytes(4, 'big')"), ("int", "depth", "child")):
    for net in (False, True):
        for dcls, dreq in (("master", ["depth == 0", "fp == bytes(4)", "child == 0"]), ("child", ["1 <= depth < 256"])):
            register(Theorem(
                f"C09.xkey.roundtrip.private.{form}_fields.{'testnet' if net else 'mainnet'}.{dcls}", P,
                params={"k": "int", **XK, "testnet": ("enum", [net])}, requires=[f"1 <= k < {N}", "0 <= child < 2**32"] + dreq,
                body=f"{B}.deserialized_extended_key({B}.serialized_extended_key(k, chain, {dexpr}, fp, {cexpr}, testnet=testnet))",
                cases=[Case("ok", ensures={"fields": "result == (spec.bip32.VERSIONS[(False, testnet)], bytes([depth]), fp, child.to_bytes(4, 'big'), chain, k)"})],
                uses=[("C07.roundtrip.check", {"d": "spec.bip32.payload(k, chain, depth, fp, child, testnet)"})],
                modular=MOD58, fuc=[f"{B}.serialized_extended_key", f"{B}.deserialized_extended_key", "bits.utils.privkey_int"],
                options={"native_gen": _xk(True, net, dcls == "master"), "nla": False, "feas_ms": 300},
                witnesses=[{"k": 1, "chain": bytes(32), "depth": 0, "fp": bytes(4), "child": 0, "testnet": net}] if dcls == "master" else
                          [{"k": N - 1, "chain": b"\x01" * 32, "depth": 3, "fp": b"\xaa" * 4, "child": 7, "testnet": net}],
                note="depth and child number given as " + form,
            ))


def _payload(rng):
    """valid payloads and single-field mutations of them (the BIP32 invalid-key classes)"""
    import spec
    sb = spec.bip32
    depth = rng.choice([0, 1, 255])
    fp = bytes(4) if depth == 0 else bytes(rng.getrandbits(8) for _ in range(4))
    child = 0 if depth == 0 else rng.getrandbits(32)
    k = rng.choice([1, spec.ec.N - 1, rng.randrange(1, spec.ec.N)])
    public = rng.random() < 0.5
    key = spec.ec.ec_mul(k, spec.ec.G) if public else k
    p = bytearray(sb.payload(key, bytes(rng.getrandbits(8) for _ in range(32)), depth, fp, child, rng.random() < 0.5))
    m = rng.randrange(12)
    if m == 0:
        p[:4] = rng.choice([b"\x04\x88\xb2\x1f", bytes(4), b"\x04\x35\x87\xce"])            # unknown version
    elif m == 1:
        p[:4] = sb.VERSIONS[(not public, False)]                                               # key type / version mismatch
    elif m == 2:
        p[45] = rng.choice([0, 1, 2, 3, 4, 5])                                                 # key prefix
    elif m == 3 and not public:
        p[46:] = rng.choice([0, spec.ec.N, spec.ec.N + 1, 2**256 - 1]).to_bytes(32, "big")     # private key out of range
    elif m == 4 and public:
        p[46:] = rng.choice([5, spec.ec.P, 2**256 - 1]).to_bytes(32, "big")                    # x not on the curve / not in the field
    elif m == 5:
        p[4] = 0                                                                               # depth 0 with parent data
        p[5:13] = bytes(rng.choice([0, 1]) for _ in range(8))
    return {"p": bytes(p)}


def _rest(public, testnet):
    def g(rng):
        import spec
        for _ in range(50):
            p = _payload(rng)["p"]
            if rng.random() < 0.7:
                p = spec.bip32.VERSIONS[(public, testnet)] + p[4:]
            if p[:4] == spec.bip32.VERSIONS[(public, testnet)]:
                return {"r": p[4:]}
        return {"r": bytes(74)}
    return g


for public in (False, True):
    for testnet in (False, True):
        V = repr(bytes.fromhex({(False, False): "0488ADE4", (True, False): "0488B21E", (False, True): "04358394", (True, True): "043587CF"}[(public, testnet)]))
        key = "(spec.ec.sec1_x(r[41:]), spec.ec.sec1_y(r[41:]))" if public else "int.from_bytes(r[42:], 'big')"
        register(Theorem(
            f"C09.xkey.accept_set.{'public' if public else 'private'}.{'testnet' if testnet else 'mainnet'}", P, params={"r": "bytes:74"},
            body=f"{B}.deserialized_extended_key(bits.base58.base58check({V} + r))",
            cases=[Case("valid", when=f"spec.bip32.valid_payload({V} + r)",
                        ensures={"fields": f"result == ({V}, r[0:1], r[1:5], r[5:9], r[9:41], {key})"}),
                   Case("invalid", when="otherwise", raises=(AssertionError, ValueError))],
            uses=[("C07.roundtrip.check", {"d": f"{V} + r"})],
            modular=MOD58 + [POINT], fuc=[f"{B}.deserialized_extended_key", "bits.utils.privkey_int"],
            options={"native_gen": _rest(public, testnet), "nla": False, "feas_ms": 300},
            witnesses=[],
            note="every checksum-valid 78-byte payload with this version: accepted exactly when BIP32 declares it valid (key type "
                 "matches version, private key in [1, n) / public key a compressed curve point, zero parent data at depth 0)",
        ))

register(Theorem(
    "C09.xkey.unknown_version", P, params={"p": "bytes:78"},
    requires=["p[:4] not in spec.bip32.PRIVATE_VERSIONS", "p[:4] not in spec.bip32.PUBLIC_VERSIONS"],
    body=f"{B}.deserialized_extended_key(bits.base58.base58check(p))",
    cases=[Case("refused", raises=(ValueError,))],
    uses=[("C07.roundtrip.check", {"d": "p"})],
    modular=MOD58, fuc=[f"{B}.deserialized_extended_key"],
    witnesses=[{"p": bytes(78)}, {"p": b"\x04\x88\xb2\x1f" + bytes(74)}],
))
register(Theorem(
    "C09.xkey.wrong_length", P, params={"p": "bytes"}, requires=["len(p) != 78"],
    body=f"{B}.deserialized_extended_key(bits.base58.base58check(p))",
    cases=[Case("refused", raises=(AssertionError, ValueError))],
    uses=[("C07.roundtrip.check", {"d": "p"})],
    modular=MOD58, fuc=[f"{B}.deserialized_extended_key"],
    witnesses=[{"p": b""}, {"p": bytes(77)}, {"p": bytes(79)}],
))

register(Theorem(
    "C09.xkey.roundtrip.public.bounded", P, params={"K": "point", **XK},
    requires=["spec.ec.on_curve(K[0], K[1])"] + XK_REQ,
    body=f"{B}.deserialized_extended_key({B}.serialized_extended_key(K, chain, bytes([depth]), fp, child, testnet=testnet))",
    cases=[Case("ok", ensures={"fields": "result == (spec.bip32.VERSIONS[(True, testnet)], bytes([depth]), fp, child.to_bytes(4, 'big'), chain, K)"})],
    fuc=[f"{B}.serialized_extended_key", f"{B}.deserialized_extended_key", f"{B}.ser_p"],
    options={"bounded_only": True, "bounded_inputs": lambda: (_xk(False)(__import__("random").Random(i)) for i in range(150)),
             "bound": "150 generated public extended keys (depth 0/1/2/255, boundary child numbers, both networks); the deductive version "
                      "(contracts/pending_c09.py) exceeded the generation budget - the decoding half is proved for EVERY payload as "
                      "C09.xkey.accept_set.public.* (SEC1 round trip: C14.sec1.roundtrip.*)"},
    witnesses=[],
))


# ---- derive_from_path, one step from an arbitrary parent extended key (symbolic key material and metadata)
def _parent(priv):
    def g(rng):
        import spec
        depth = rng.choice([0, 1, 2, 254])
        d = {"chain": bytes(rng.getrandbits(8) for _ in range(32)), "depth": depth,
             "fp": bytes(4) if depth == 0 else bytes(rng.getrandbits(8) for _ in range(4)),
             "child": 0 if depth == 0 else rng.choice(IDX + [rng.getrandbits(32)]), "testnet": rng.random() < 0.5}
        k = rng.choice([1, spec.ec.N - 1, rng.randrange(1, spec.ec.N)])
        d["k" if priv else "K"] = k if priv else spec.ec.ec_mul(k, spec.ec.G)
        return d
    return g


def _pstr(i):
    return str(i - 2**31) + "'" if i >= 2**31 else str(i)


XKP = {"chain": "bytes:32", "depth": "int", "fp": "bytes:4", "child": "int", "testnet": "bool"}
PARENT_REQ = ["0 <= depth < 255", "0 <= child < 2**32", "depth != 0 or (fp == bytes(4) and child == 0)"]
for i in IDX:
    register(Theorem(
        f"C09.derive.one_step.private.{_pstr(i).replace(chr(39), 'h')}", P, params={"k": "int", **XKP},
        requires=[f"1 <= k < {N}"] + PARENT_REQ,
        body=f"{HD}.derive_from_path({'m/' + _pstr(i)!r}, {B}.serialized_extended_key(k, chain, bytes([depth]), fp, child.to_bytes(4, 'big'), testnet=testnet))",
        cases=[Case("ok", when=f"spec.bip32.ckd_priv_ok(k, chain, {i})",
                    ensures={"child_payload": f"ghost_call_base58encode_data == spec.bip32.child_payload_priv(k, chain, depth, {i}, testnet) + spec.base58.checksum(spec.bip32.child_payload_priv(k, chain, depth, {i}, testnet))",
                             "is_its_encoding": "result == ghost_ret_base58encode"}),
               Case("invalid_child", when="otherwise", raises=(AssertionError, ValueError))],
        uses=[("C07.roundtrip.check", {"d": "spec.bip32.payload(k, chain, depth, fp, child, testnet)"})],
        modular=MOD58 + [SMUL, PUBKEY, f"{B}.CKDpriv@C09.CKDpriv"],
        fuc=[f"{HD}.derive_from_path", f"{B}.serialized_extended_key", f"{B}.deserialized_extended_key"],
        options={**FIX, "native_gen": _parent(True), "assumptions": GROUP},
        witnesses=[{"k": 1, "chain": bytes(32), "depth": 0, "fp": bytes(4), "child": 0, "testnet": False},
                   {"k": N - 1, "chain": b"\x05" * 32, "depth": 254, "fp": b"\x01\x02\x03\x04", "child": 2**32 - 1, "testnet": True}],
        note="child depth = parent depth + 1, fingerprint = HASH160(ser_P(parent public key))[:4], child number = the index, "
             "key and chain code per CKDpriv; the parent is ANY valid extended private key (not only a master key)",
    ))
def _paths():
    import random
    rng = random.Random(9)
    pool = IDX + [44 + 2**31, 7, 1000]
    for n in range(60):
        depth = rng.choice([1, 2, 3, 4, 5, 8]) if n else 1
        idx = [rng.choice(pool + [rng.getrandbits(32)]) for _ in range(depth)]
        yield {"seed": bytes(rng.getrandbits(8) for _ in range(rng.choice([16, 32, 64]))), "indices": idx,
               "split": rng.randrange(1, depth) if depth > 1 else 1, "testnet": rng.random() < 0.5}


register(Theorem(
    "C09.derive.paths.bounded", P, params={"seed": "bytes", "indices": "list:int", "split": "int", "testnet": "bool"},
    body="spec.bip32.check_paths(seed, indices, split, testnet)",
    cases=[Case("ok", ensures={"whole_is_ref": "result['whole_is_ref']", "composes": "result['composes']",
                               "xpub_parent_is_ref": "result['xpub_parent_is_ref']", "public_is_ref": "result['public_is_ref']",
                               "public_matches_private": "result['public_matches_private']"})],
    fuc=[f"{HD}.derive_from_path", f"{HD}.get_xpub", f"{B}.to_master_key", f"{B}.root_serialized_extended_key"],
    options={"bounded_only": True, "bounded_inputs": _paths,
             "bound": "60 generated (seed, path) pairs: seeds of 16/32/64 bytes, paths of depth 1..8 over {0, 1, 2^31-1, 2^31, 2^31+1, 2^32-1, 44', 7, 1000, random}; "
                      "whole path vs an independent reference implementation (own EC arithmetic, own Base58Check), whole path vs two-stage derivation "
                      "through an intermediate extended key, xpub of the deepest hardened prefix, public-branch derivation of the non-hardened suffix vs "
                      "reference and vs the xpub of the private branch.  The string layer (split('/'), int(), the ' suffix) and multi-step composition are "
                      "outside the symbolic engine: this clause is BOUNDED, not proved"},
    witnesses=[],
))
