"""C10: BIP39 mnemonic <-> entropy, seed."""
from pyvc.contracts import Theorem, Case, register

P = ["C10"]
B = "bits.bips.bip39"
NATIVE = [f"{B}.load_wordlist"]


def _ent(n):
    def g(rng):
        k = rng.random()
        if k < 0.1:
            return {"e": bytes(n)}
        if k < 0.2:
            return {"e": b"\xff" * n}
        if k < 0.4:
            z = rng.choice([1, 2, 5])                      # leading zero bytes
            return {"e": bytes(z) + bytes(rng.getrandbits(8) for _ in range(n - z))}
        if k < 0.5:
            return {"e": (1 << rng.randrange(8 * n)).to_bytes(n, "big")}   # single-bit patterns
        return {"e": bytes(rng.getrandbits(8) for _ in range(n))}
    return g


for n, nwords in ((16, 12), (20, 15), (24, 18), (28, 21), (32, 24)):
    register(Theorem(
        f"C10.mnemonic.{n * 8}bits", P, params={"e": f"bytes:{n}"},
        body=f"{B}.calculate_mnemonic_phrase(e)",
        cases=[Case("ok", ensures={"words": "result == spec.bip39.mnemonic(e)", "count": f"len(result.split()) == {nwords}"})],
        native_ok=NATIVE, fuc=[f"{B}.calculate_mnemonic_phrase"], options={"native_gen": _ent(n)},
        witnesses=[{"e": bytes(n)}, {"e": b"\xff" * n}, {"e": bytes(range(n))}],
    ))
    register(Theorem(
        f"C10.roundtrip.{n * 8}bits", P, params={"e": f"bytes:{n}"},
        body=f"{B}.to_entropy({B}.calculate_mnemonic_phrase(e))",
        cases=[Case("ok", ensures={"entropy_back": "result == e"})],
        native_ok=NATIVE, fuc=[f"{B}.calculate_mnemonic_phrase", f"{B}.to_entropy"], options={"native_gen": _ent(n)},
        witnesses=[{"e": bytes(n)}, {"e": b"\xff" * n}, {"e": bytes(range(n))}, {"e": b"\x00\x00" + bytes(range(n - 2))}],
    ))

register(Theorem(
    "C10.bad_length", P, params={"e": "bytes"}, requires=["len(e) not in (16, 20, 24, 28, 32)"],
    body=f"{B}.calculate_mnemonic_phrase(e)", cases=[Case("refused", raises=(ValueError,))],
    native_ok=NATIVE, fuc=[f"{B}.calculate_mnemonic_phrase"],
    witnesses=[{"e": b""}, {"e": bytes(15)}, {"e": bytes(17)}, {"e": bytes(33)}, {"e": bytes(40)}],
))


def _ws(n):
    def g(rng):
        ws = [rng.randrange(2048) for _ in range(n)]
        k = rng.random()
        if k < 0.5:           # a valid phrase, possibly with the last word changed
            import spec.bip39 as sb
            ent = bytes(rng.getrandbits(8) for _ in range(n * 11 // 33 * 4))
            m = sb.mnemonic(ent).split()
            ws = [sb.WORDS.index(w) for w in m]
            if k < 0.2:
                ws[-1] = rng.randrange(2048)
            elif k < 0.3:
                ws[rng.randrange(n)] = rng.randrange(2048)
        return {"ws": ws}
    return g


for nwords in (12, 15, 18, 21, 24):
    register(Theorem(
        f"C10.to_entropy.{nwords}words", P, params={"ws": ("listn", nwords, "nat")},
        requires=["all(w < 2048 for w in ws)"],
        body=f"{B}.to_entropy(spec.bip39.phrase(ws))",
        cases=[Case("accepted", when="spec.bip39.checksum_ok(ws)", ensures={"entropy": "result == spec.bip39.entropy_of(ws)"}),
               Case("rejected", when="otherwise", raises=(AssertionError, ValueError))],
        native_ok=NATIVE, fuc=[f"{B}.to_entropy"], options={"native_gen": _ws(nwords)},
        note="accept set of to_entropy over all sequences of list words of this length: exactly the sequences whose "
             "trailing checksum bits equal the leading SHA-256 bits of the entropy bits; everything else raises",
    ))
    register(Theorem(
        f"C10.unique.{nwords}words", P, params={"ws": ("listn", nwords, "nat"), "last": "nat"},
        requires=["all(w < 2048 for w in ws)", "last < 2048", "last != ws[-1]",
                  f"last >> {nwords // 3} == ws[-1] >> {nwords // 3}"],
        body=f"({B}.to_entropy(spec.bip39.phrase(ws)), {B}.to_entropy(spec.bip39.phrase(ws[:-1] + [last])))",
        cases=[Case("not_both", raises=(AssertionError, ValueError))],
        native_ok=NATIVE, fuc=[f"{B}.to_entropy"],
        note="two sequences with the same entropy bits that differ in the checksum bits are never both accepted",
    ))

for nwords in (0, 1, 2, 11, 13, 14, 16, 17, 23, 25):
    register(Theorem(
        f"C10.to_entropy.count{nwords}", P, params={"ws": ("listn", nwords, "nat")},
        requires=["all(w < 2048 for w in ws)"],
        body=f"{B}.to_entropy(spec.bip39.phrase(ws))", cases=[Case("refused", raises=(ValueError,))],
        native_ok=NATIVE, fuc=[f"{B}.to_entropy"],
    ))

for pos in (0, 5, 11):
    register(Theorem(
        f"C10.to_entropy.nonword_at{pos}", P, params={"ws": ("listn", 12, "nat")},
        requires=["all(w < 2048 for w in ws)"],
        body=f"{B}.to_entropy(' '.join([spec.bip39.WORDS[w] for w in ws[:{pos}]] + ['zzzzz'] + [spec.bip39.WORDS[w] for w in ws[{pos + 1}:]]))",
        cases=[Case("refused", raises=(ValueError, AssertionError))],
        native_ok=NATIVE, fuc=[f"{B}.to_entropy"],
        note="a word outside the list at this position, every other word arbitrary",
    ))

register(Theorem(
    "C10.to_seed", P, params={"m": "str", "p": "str"},
    body=f"{B}.to_seed(m, p)",
    cases=[Case("ok", ensures={"pbkdf2": "result == spec.bip39.seed(m, p)", "len": "len(result) == 64"})],
    fuc=[f"{B}.to_seed"],
    witnesses=[{"m": "legal winner thank year wave sausage worth useful legal winner thank yellow", "p": "TREZOR"},
               {"m": "あいこくしん", "p": "メートルガバヴァぱばぐ゜"},
               {"m": "abc", "p": "Åﬁ"}],
    note="hash, normalisation and encoding are uninterpreted: the obligation is that the same functions are applied to the "
         "same arguments in the same roles (password / salt / iterations / dklen) as in the BIP's definition",
))
register(Theorem(
    "C10.to_seed.default_passphrase", P, params={"m": "str"},
    body=f"{B}.to_seed(m)",
    cases=[Case("ok", ensures={"pbkdf2": "result == spec.bip39.seed(m, '')"})],
    fuc=[f"{B}.to_seed"], witnesses=[{"m": "abc"}],
))

register(Theorem(
    "C10.wordlist", P, params={"k": ("enum", [0])},
    body=f"spec.bip39.wordlist_digest({B}.load_wordlist())",
    cases=[Case("english", ensures={"digest": "result == spec.bip39.ENGLISH_SHA256"})],
    native_ok=NATIVE + ["spec.bip39.wordlist_digest"], fuc=[f"{B}.load_wordlist"], witnesses=[{"k": 0}],
    note="ground fact: the table the other theorems treat abstractly is the BIP39 English list (pinned digest of the "
         "canonical file), so 'every word is from the English list' follows from 'every word is an entry of the table'",
))
