"""C11: BIP143 signature message for every input index and each of the six standard sighash types."""
from pyvc.contracts import Theorem, Case, fn_contract, register

FLAGS = [0x01, 0x02, 0x03, 0x81, 0x82, 0x83]


def _gen(rng):
    n_in = rng.randint(1, 8)
    n_out = rng.randint(1, 8)
    rb = lambda n: bytes(rng.getrandbits(8) for _ in range(n))  # noqa
    txins = [rb(36) + bytes([k]) + rb(k) + rb(4) for k in (rng.randint(0, 30) for _ in range(n_in))]
    txouts = [rb(8) + bytes([k]) + rb(k) for k in (rng.randint(0, 40) for _ in range(n_out))]
    return {"txins": txins, "txin_index": rng.randrange(n_in), "txin_value": rng.choice([0, 1, 21 * 10**14, rng.getrandbits(50)]),
            "scriptcode": rb(rng.choice([1, 26, 80, 300, 600])), "txouts": txouts, "version": rng.choice([1, 2, 2**32 - 1]),
            "locktime": rng.choice([0, 17, 2**32 - 1, rng.getrandbits(32)]), "sighash_flag": rng.choice(FLAGS)}

register(fn_contract(
    "C11.witness_message", ["C11", "C16"], "bits.bips.bip143.witness_message",
    {"txins": "list:bytes", "txin_index": "int", "txin_value": "int", "scriptcode": "bytes",
     "txouts": "list:bytes", "version": "int", "locktime": "int", "sighash_flag": ("enum", FLAGS)},
    requires=["0 <= txin_index < len(txins)", "0 <= txin_value < 2**64", "0 <= version < 2**32", "0 <= locktime < 2**32"],
    cases=[Case("ok", ensures={
        "preimage": "result == spec.bip143.bip143_msg(version, txins, txin_index, txin_value, scriptcode, txouts, locktime, sighash_flag)",
        "length": "len(result) == 4 + 32 + 32 + len(txins[txin_index][:36]) + len(scriptcode) + 8 + len(txins[txin_index][-4:]) + 32 + 4 + 4",
    })],
    returns="bytes", options={"native_gen": _gen},
    witnesses=[
        {"txins": [b"\x01" * 36 + b"\x00" + b"\xee\xff\xff\xff", b"\x02" * 36 + b"\x00" + b"\xff\xff\xff\xff"], "txin_index": 1,
         "txin_value": 600000000, "scriptcode": b"\x19\x76\xa9\x14" + b"\x11" * 20 + b"\x88\xac",
         "txouts": [b"\x01" * 8 + b"\x00"], "version": 1, "locktime": 17, "sighash_flag": f} for f in FLAGS],
))

register(fn_contract(
    "C11.witness_digest", ["C11"], "bits.bips.bip143.witness_digest", {"witness_msg": "bytes"},
    cases=[Case("ok", ensures={"dsha": "result == spec.bip143.dsha(witness_msg)", "len": "len(result) == 32"})],
    witnesses=[{"witness_msg": b""}, {"witness_msg": b"abc"}],
))
