"""C12: BIP340 Schnorr signing and verification."""
from pyvc.contracts import Theorem, Case, fn_contract, register

EC = "bits.ecmath"
B = "bits.bips.bip340"
SMUL = f"{EC}.point_scalar_mul@C03.point_scalar_mul.assumed"
PADD = f"{EC}.point_add@C03.point_add.assumed"
ASSUME = ["assumed contracts C03.point_scalar_mul.assumed / C03.point_add.assumed (group operations)",
          "A-prime-p + lemma sqrt_3mod4 (lean/Field.lean): c**((p+1)/4) is a square root of c whenever c is a square"]


def _triples(rng):
    """valid triples, bit flips of each component, r/s boundaries, wrong lengths"""
    import spec
    ec = spec.ec
    sk = rng.choice([1, 2, ec.N - 1, rng.randrange(1, ec.N)]).to_bytes(32, "big")
    m = bytes(rng.getrandbits(8) for _ in range(rng.choice([0, 1, 32, 33, 100])))
    aux = bytes(rng.getrandbits(8) for _ in range(32))
    sig = spec.bip340.sign(sk, m, aux)
    if not sig:
        return _triples(rng)
    pk = ec.ec_mul(int.from_bytes(sk, "big"), ec.G)[0].to_bytes(32, "big")
    k = rng.random()
    if k < 0.3:
        pass
    elif k < 0.45:
        i = rng.randrange(64 * 8)
        sig = bytes(b ^ ((1 << (i % 8)) if j == i // 8 else 0) for j, b in enumerate(sig))
    elif k < 0.55:
        i = rng.randrange(32 * 8)
        pk = bytes(b ^ ((1 << (i % 8)) if j == i // 8 else 0) for j, b in enumerate(pk))
    elif k < 0.65:
        m = m + b"\x00"
    elif k < 0.75:
        pk = b"\x00" + pk
    elif k < 0.85:
        sig = sig[:32] + b"\x00" + sig[32:]
    elif k < 0.9:
        sig = sig[:32] + rng.choice([0, ec.N, ec.N + 1, ec.N - 1]).to_bytes(32, "big")
    else:
        sig = rng.choice([ec.P, ec.P - 1, ec.P + 1]).to_bytes(32, "big") + sig[32:]
    return {"pk": pk, "m": m, "sig": sig}


register(fn_contract(
    "C12.verify", ["C12"], f"{B}.verify", {"pk": "bytes", "m": "bytes", "sig": "bytes"},
    cases=[Case("accepted", when="spec.bip340.verify_ok(pk, m, sig)", ensures={"ok": "result == 'OK'"}),
           Case("rejected", when="otherwise", raises=(AssertionError, ValueError, TypeError, IndexError, OverflowError),
                ensures={"not_ok": "result != 'OK' and not result"})],
    modular=[SMUL, PADD], returns=("enum", ["OK"]),
    options={"native_gen": _triples, "nla": False, "feas_ms": 300, "lemmas": ["pow_zero", "no_two_torsion"], "assumptions": ASSUME,
             "bounded_only": True, "bounded_inputs": lambda: (_triples(__import__("random").Random(i)) for i in range(400)),
             "bound": "400 generated triples (valid ones, single-bit flips of pk / sig, changed message, wrong lengths, r in {p-1,p,p+1}, s in {0,n-1,n,n+1}); "
                      "the deductive version of this contract exceeded the 900 s budget of a quick check (generation alone > 600 s) and is not claimed"},
    witnesses=[],
))


def _signs(rng):
    import spec
    ec = spec.ec
    sk = rng.choice([0, 1, 2, ec.N - 1, ec.N, ec.N + 1, ec.P - 1, 2**256 - 1, rng.randrange(1, ec.N)]).to_bytes(32, "big")
    return {"key": sk, "digest": bytes(rng.getrandbits(8) for _ in range(rng.choice([0, 1, 32, 64, 1024]))),
            "aux": bytes(rng.getrandbits(8) for _ in range(32))}


register(fn_contract(
    "C12.sign", ["C12"], f"{B}.sign", {"key": "bytes:32", "digest": "bytes", "aux": "bytes:32"},
    lets={"sig": "spec.bip340.sign(key, digest, aux)"},
    cases=[
        Case("bad_key", when="int.from_bytes(key, 'big') == 0 or int.from_bytes(key, 'big') >= bits.ecmath.SECP256K1_N", raises=(ValueError,)),
        Case("nonce_zero", when="1 <= int.from_bytes(key, 'big') < bits.ecmath.SECP256K1_N and len(sig) == 0", raises=(AssertionError,)),
        Case("specified_signature", when="1 <= int.from_bytes(key, 'big') < bits.ecmath.SECP256K1_N and len(sig) == 64 and spec.bip340.verify_ok(spec.ec.smul(int.from_bytes(key, 'big'), spec.ec.G)[0].to_bytes(32, 'big'), digest, sig)",
             ensures={"equals_default_signing": "result == sig"}),
        Case("self_check_fails", when="otherwise", raises=(AssertionError,)),
    ],
    modular=[SMUL, PADD, f"{B}.verify@C12.verify"],
    options={"native_gen": _signs, "nla": False, "feas_ms": 300,
             "bounded_only": True, "bounded_inputs": lambda: (_signs(__import__("random").Random(i)) for i in range(300)),
             "bound": "300 generated (key, message, aux) incl. keys 0, 1, n-1, n, n+1, p-1, 2^256-1 and message lengths 0..1024; deductive version too expensive, not claimed",
             "assumptions": ASSUME + ["lemma schnorr_complete (not proved here): the specified signature always passes verification, i.e. the case self_check_fails is empty"]},
    witnesses=[],
))


# ---- proved for all inputs: the refusal clauses
register(Theorem(
    "C12.sign.key_out_of_range", ["C12"], params={"key": "bytes:32", "digest": "bytes", "aux": "bytes:32"},
    requires=["int.from_bytes(key, 'big') == 0 or int.from_bytes(key, 'big') >= spec.ec.N"],
    body=f"{B}.sign(key, digest, aux)",
    cases=[Case("refused", raises=(ValueError,))],
    fuc=[f"{B}.sign"],
    witnesses=[{"key": (0).to_bytes(32, "big"), "digest": b"", "aux": b"\x00" * 32},
               {"key": (0xFFFFFFFFFFFFFFFFFFFFFFFFFFFFFFFEBAAEDCE6AF48A03BBFD25E8CD0364141 + 1).to_bytes(32, "big"), "digest": b"m", "aux": b"\x01" * 32},
               {"key": b"\xff" * 32, "digest": b"m", "aux": b"\x01" * 32}],
))
register(Theorem(
    "C12.verify.wrong_length", ["C12"], params={"pk": "bytes", "m": "bytes", "sig": "bytes"},
    requires=["len(pk) != 32 or len(sig) != 64"],
    body=f"{B}.verify(pk, m, sig)",
    cases=[Case("rejected", raises=(AssertionError, ValueError, TypeError, IndexError, OverflowError))],
    modular=[SMUL, PADD], fuc=[f"{B}.verify"], options={"nla": False, "feas_ms": 300, "gen_budget_s": 300},
    witnesses=[{"pk": b"\x00" * 33, "m": b"", "sig": b"\x00" * 64}, {"pk": b"\x01" * 32, "m": b"", "sig": b"\x00" * 65}, {"pk": b"", "m": b"", "sig": b""}],
))
