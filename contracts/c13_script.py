"""C13: script assembly / disassembly, minimal pushes, witness stacks, standard templates."""
from pyvc.contracts import Theorem, Case, fn_contract, register

P = ["C13"]
SU = "bits.script.utils"

# ---- one data item of any length: shortest push, exact little-endian length, and it disassembles back
register(Theorem(
    "C13.push.minimal", P + ["C16"], params={"d": "bytes"}, requires=["1 <= len(d) < 2**32"],
    body=f"{SU}.script([d.hex()])",
    cases=[Case("ok", ensures={"shortest_push": "result == spec.script.push_min(d)"})],
    fuc=[f"{SU}.script"],
    witnesses=[{"d": b"\x01" * n} for n in (1, 75, 76, 255, 256, 65535, 65536)],
))
register(Theorem(
    "C13.push.too_long", P, params={"d": "bytes"}, requires=["len(d) >= 2**32"],
    body=f"{SU}.script([d.hex()])",
    cases=[Case("refused", raises=(ValueError,))],
    fuc=[f"{SU}.script"],
))
register(Theorem(
    "C13.push.roundtrip", P, params={"d": "bytes"}, requires=["1 <= len(d) < 2**32"],
    body=f"{SU}.decode_script({SU}.script([d.hex()]))",
    cases=[Case("ok", ensures={"same_item": "result == [d.hex()]"})],
    fuc=[f"{SU}.script", f"{SU}.decode_script"],
    witnesses=[{"d": b"\x02" * n} for n in (1, 75, 76, 255, 256, 65535, 65536)],
))
register(Theorem(
    "C13.push.decode_canonical", P, params={"d": "bytes", "t": "bytes"}, requires=["1 <= len(d) < 2**32"],
    body=f"{SU}.script({SU}.decode_script(spec.script.push_min(d)))",
    cases=[Case("ok", ensures={"same_bytes": "result == spec.script.push_min(d)"})],
    fuc=[f"{SU}.script", f"{SU}.decode_script"],
    witnesses=[{"d": b"\x03" * n, "t": b""} for n in (1, 75, 76, 255, 256, 65535, 65536)],
))
# ---- two items: pushes and opcodes do not interfere (data/data, data/opcode, opcode/data)
register(Theorem(
    "C13.two_items.data_data", P, params={"a": "bytes", "b": "bytes"}, requires=["1 <= len(a) < 2**32", "1 <= len(b) < 2**32"],
    body=f"{SU}.decode_script({SU}.script([a.hex(), b.hex()]))",
    cases=[Case("ok", ensures={"same_items": "result == [a.hex(), b.hex()]"})],
    lets={"asm": f"{SU}.script([a.hex(), b.hex()])"},
    fuc=[f"{SU}.script", f"{SU}.decode_script"],
    witnesses=[{"a": b"\x01" * 76, "b": b"\x4c"}, {"a": b"\xac", "b": b"\x00" * 300}],
))
register(Theorem(
    "C13.two_items.data_op", P, params={"a": "bytes"}, requires=["1 <= len(a) < 2**32"],
    body=f"{SU}.decode_script({SU}.script([a.hex(), 'OP_CHECKSIG']) + {SU}.script(['OP_DUP', a.hex()]))",
    cases=[Case("ok", ensures={"same_items": "result == [a.hex(), 'OP_CHECKSIG', 'OP_DUP', a.hex()]"})],
    fuc=[f"{SU}.script", f"{SU}.decode_script"],
    witnesses=[{"a": b"\x01" * 33}, {"a": b"\xac" * 256}],
))

# ---- every defined non-push opcode name: one byte, and disassembly reports the same operation (finite: all names)
import bits.script.constants as _c  # noqa: E402  (names are read from the tree under verification)
_OPS = sorted(n for n in dir(_c) if n.startswith("OP_") and n not in ("OP_PUSHDATA1", "OP_PUSHDATA2", "OP_PUSHDATA4"))
register(Theorem(
    "C13.opcode.roundtrip", P, params={"name": ("enum", _OPS)},
    body=f"{SU}.decode_script({SU}.script([name]))",
    cases=[Case("ok", ensures={"same_operation": "len(result) == 1 and spec.script.same_op(result[0], name)",
                               "one_byte": f"len({SU}.script([name])) == 1",
                               "core_value": f"spec.script.ALIASES.get(name, name) not in list(spec.script.CORE_OPCODES.values()) or "
                                             f"spec.script.CORE_OPCODES[{SU}.script([name])[0]] == spec.script.ALIASES.get(name, name)"})],
    fuc=[f"{SU}.script", f"{SU}.decode_script"],
    witnesses=[{"name": "OP_CHECKSIG"}, {"name": "OP_FALSE"}, {"name": "OP_NOP2"}],
))

# ---- witness stacks: CompactSize count and item lengths (structural stacks of 0..3 items, items of any length)
for n in range(0, 3):
    items = ", ".join(f"w{i}" for i in range(n))
    hexes = ", ".join(f"w{i}.hex()" for i in range(n))
    register(Theorem(
        f"C13.witness_stack.{n}_items", P + ["C05", "C04"],
        params={**{f"w{i}": "bytes" for i in range(n)}, "t": "bytes"},
        requires=[f"len(w{i}) < 2**64" for i in range(n)],
        lets={"ser": f"{SU}.script([{hexes}], witness=True)"},
        body=f"{SU}.decode_script({SU}.script([{hexes}], witness=True) + t, witness=True)",
        cases=[Case("ok", ensures={"framing": f"ser == spec.script.wstack([{items}])",
                                   "roundtrip": f"result == ([{hexes}], t)"})],
        fuc=[f"{SU}.script", f"{SU}.decode_script"],
        witnesses=[{**{f"w{i}": bytes([i]) * ln for i in range(n)}, "t": tt}
                   for ln in (0, 1, 252, 253, 300) for tt in (b"", b"\x11\x22\x33\x44")],
    ))


# ---- standard templates: the disassembly of the built script is exactly the intended opcodes and pushes
def _tmpl(name, params, requires, body, expect, wit, props=P):
    register(Theorem(f"C13.template.{name}", props, params=params, requires=requires,
                     body=f"{SU}.decode_script({body})",
                     cases=[Case("ok", ensures={"disassembly": f"spec.script.same_items(result, {expect})"})],
                     fuc=[f"{SU}.decode_script", f"{SU}.{name}"], witnesses=wit))


_tmpl("p2pkh_script_pubkey", {"h": "bytes:20"}, [], f"{SU}.p2pkh_script_pubkey(h)",
      "['OP_DUP', 'OP_HASH160', h.hex(), 'OP_EQUALVERIFY', 'OP_CHECKSIG']", [{"h": b"\x63" * 20}], P + ["C08"])
_tmpl("p2sh_script_pubkey", {"h": "bytes:20"}, [], f"{SU}.p2sh_script_pubkey(h)",
      "['OP_HASH160', h.hex(), 'OP_EQUAL']", [{"h": b"\xee" * 20}], P + ["C08"])
_tmpl("p2pk_script_pubkey", {"pk": "bytes"}, ["len(pk) == 33 or len(pk) == 65"], f"{SU}.p2pk_script_pubkey(pk)",
      "[pk.hex(), 'OP_CHECKSIG']", [{"pk": b"\x02" * 33}, {"pk": b"\x04" * 65}], P + ["C08"])
_tmpl("p2pk_script_sig", {"sig": "bytes"}, ["8 <= len(sig) <= 73"], f"{SU}.p2pk_script_sig(sig)", "[sig.hex()]", [{"sig": b"\x30" * 71}])
_tmpl("p2pkh_script_sig", {"sig": "bytes", "pk": "bytes"}, ["8 <= len(sig) <= 73", "len(pk) == 33 or len(pk) == 65"],
      f"{SU}.p2pkh_script_sig(sig, pk)", "[sig.hex(), pk.hex()]", [{"sig": b"\x30" * 72, "pk": b"\x03" * 33}])
_tmpl("p2wpkh_script_pubkey", {"h": "bytes", "v": ("enum", list(range(17)))}, ["2 <= len(h) <= 40"],
      f"{SU}.p2wpkh_script_pubkey(h, witness_version=v)", "[spec.script.op_n(v), h.hex()]",
      [{"h": b"\x75" * 20, "v": 0}, {"h": b"\x75" * 2, "v": 16}], P + ["C08"])
_tmpl("p2wsh_script_pubkey", {"h": "bytes:32", "v": ("enum", list(range(17)))}, [],
      f"{SU}.p2wsh_script_pubkey(h, witness_version=v)", "[spec.script.op_n(v), h.hex()]",
      [{"h": b"\x18" * 32, "v": 0}, {"h": b"\x18" * 32, "v": 1}], P + ["C08"])
_tmpl("null_data_script_pubkey", {"d": "bytes"}, ["1 <= len(d) <= 80"], f"{SU}.null_data_script_pubkey(d)",
      "['OP_RETURN', d.hex()]", [{"d": b"\xaa" * 36}, {"d": b"\xaa" * 76}, {"d": b"\xaa" * 80}])
_tmpl("p2sh_script_sig", {"s0": "bytes", "s1": "bytes", "rs": "bytes"},
      ["8 <= len(s0) <= 73", "8 <= len(s1) <= 73", "1 <= len(rs) <= 600"], f"{SU}.p2sh_script_sig([s0, s1], rs)",
      "[s0.hex(), s1.hex(), rs.hex()]", [{"s0": b"\x30" * 71, "s1": b"\x30" * 72, "rs": b"\x52" * 71}, {"s0": b"\x30" * 71, "s1": b"\x30" * 72, "rs": b"\x52" * 105}])
_tmpl("p2sh_p2wsh_script_sig", {"ws": "bytes"}, ["1 <= len(ws) <= 600"], f"{SU}.p2sh_p2wsh_script_sig(ws)", "[ws.hex()]",
      [{"ws": b"\x51" * 34}, {"ws": b"\x51" * 80}])
_tmpl("p2sh_p2wpkh_script_sig", {"h": "bytes:20"}, [], f"{SU}.p2sh_p2wpkh_script_sig({SU}.p2wpkh_script_pubkey(h))",
      f"[{SU}.p2wpkh_script_pubkey(h).hex()]", [{"h": b"\x75" * 20}])
_tmpl("multisig_script_sig", {"s0": "bytes", "s1": "bytes"}, ["8 <= len(s0) <= 73", "8 <= len(s1) <= 73"],
      f"{SU}.multisig_script_sig([s0, s1])", "['OP_0', s0.hex(), s1.hex()]", [{"s0": b"\x30" * 70, "s1": b"\x30" * 73}])
_tmpl("p2sh_multisig_script_sig", {"s0": "bytes", "rs": "bytes"}, ["8 <= len(s0) <= 73", "1 <= len(rs) <= 600"],
      f"{SU}.p2sh_multisig_script_sig([s0], rs)", "['OP_0', s0.hex(), rs.hex()]", [{"s0": b"\x30" * 70, "rs": b"\x52" * 105}])
for n in (1, 2, 3, 15, 16):
    ks = [f"k{i}" for i in range(n)]
    _tmpl("multisig_script_pubkey", {"m": ("enum", list(range(1, n + 1))), **{k: "bytes" for k in ks}},
          [f"len({k}) == 33 or len({k}) == 65" for k in ks],
          f"{SU}.multisig_script_pubkey(m, [{', '.join(ks)}])",
          f"[spec.script.op_n(m), {', '.join(k + '.hex()' for k in ks)}, spec.script.op_n({n}), 'OP_CHECKMULTISIG']",
          [{"m": 1, **{k: bytes([2 + i % 2]) * 33 for i, k in enumerate(ks)}}])
    from pyvc.contracts import REGISTRY as _R
    _R[-1].name = f"C13.template.multisig_script_pubkey.n{n}"
