"""C14: key containers - SEC1 public keys, WIF, PEM."""
from pyvc.contracts import Theorem, Case, fn_contract, register

P = ["C14"]

register(fn_contract(
    "C14.pubkey", P + ["C08", "C09"], "bits.utils.pubkey", {"x": "int", "y": "int", "compressed": "bool"},
    requires=["spec.ec.on_curve(x, y)"],
    cases=[Case("ok", ensures={"sec1": "result == spec.ec.sec1_encode(x, y, compressed)",
                               "length": "len(result) == (33 if compressed else 65)"})],
    returns="bytes",
    witnesses=[{"x": 0x79BE667EF9DCBBAC55A06295CE870B07029BFCDB2DCE28D959F2815B16F81798, "y": 0x483ADA7726A3C4655DA4FBFC0E1108A8FD17B448A68554199C47D08FFB10D4B8, "compressed": c} for c in (True, False)],
))


def _pk(rng):
    import spec
    ec = spec.ec
    q = ec.ec_mul(rng.randrange(1, ec.N), ec.G)
    good = ec.sec1_encode(q[0], q[1], rng.random() < 0.5)
    k = rng.random()
    if k < 0.4:
        return {"pubkey_": good}
    if k < 0.5:
        return {"pubkey_": bytes([rng.choice([0, 1, 2, 3, 4, 5, 6, 7])]) + good[1:]}
    if k < 0.6:
        return {"pubkey_": good[:33] + bytes(32) if len(good) == 33 else good[:33]}
    if k < 0.7:
        return {"pubkey_": good[:1] + ec.P.to_bytes(32, "big") + good[33:]}
    if k < 0.8:
        return {"pubkey_": b"\x02" + (5).to_bytes(32, "big")}          # x = 5 is not on the curve
    return {"pubkey_": bytes(rng.getrandbits(8) for _ in range(rng.choice([0, 1, 32, 33, 34, 64, 65, 66])))}


register(fn_contract(
    "C14.point", P + ["C08", "C09", "C02", "C01"], "bits.utils.point", {"pubkey_": "bytes"},
    cases=[Case("accepted", when="spec.ec.sec1_ok(pubkey_)",
                ensures={"decodes": "result == (spec.ec.sec1_x(pubkey_), spec.ec.sec1_y(pubkey_))",
                         "on_curve": "spec.ec.on_curve(result[0], result[1])"}),
           Case("rejected", when="otherwise", raises=(AssertionError, ValueError))],
    returns="point", options={"native_gen": _pk, "feas_ms": 1500, "nla": False, "refine_len": True, "lemmas": ["pow_zero", "no_two_torsion"],
                              "assumptions": ["A-prime-p; lemmas pow_eq_zero_field and no_two_torsion (lean/Field.lean)"]},
    witnesses=[{"pubkey_": bytes.fromhex("0279BE667EF9DCBBAC55A06295CE870B07029BFCDB2DCE28D959F2815B16F81798")},
               {"pubkey_": bytes.fromhex("0279BE667EF9DCBBAC55A06295CE870B07029BFCDB2DCE28D959F2815B16F81798") + b"\xaa" * 32},
               {"pubkey_": b"\x04" + bytes.fromhex("79BE667EF9DCBBAC55A06295CE870B07029BFCDB2DCE28D959F2815B16F81798")},
               {"pubkey_": b""}],
))
register(fn_contract(
    "C14.is_point", P + ["C08"], "bits.utils.is_point", {"pubkey_": "bytes"},
    cases=[Case("total", ensures={"bool": "result is True or result is False",
                                  "iff": "result == spec.ec.sec1_ok(pubkey_)"})],
    modular=["bits.utils.point@C14.point"], returns="bool", options={"native_gen": _pk},
    witnesses=[{"pubkey_": b""}, {"pubkey_": b"\x02" * 33}],
))

# ---- SEC1 round trip: decoding the encoding of a curve point gives the point back
G_ = (0x79BE667EF9DCBBAC55A06295CE870B07029BFCDB2DCE28D959F2815B16F81798, 0x483ADA7726A3C4655DA4FBFC0E1108A8FD17B448A68554199C47D08FFB10D4B8)
register(Theorem(
    "C14.sec1.roundtrip.uncompressed", P, params={"x": "int", "y": "int"},
    requires=["0 <= x < spec.ec.P", "0 <= y < spec.ec.P", "spec.ec.on_curve(x, y)"],
    body="bits.utils.point(bits.utils.pubkey(x, y, compressed=False))",
    cases=[Case("ok", ensures={"point_back": "result == (x, y)"})],
    fuc=["bits.utils.point", "bits.utils.pubkey"],
    options={"nla": False, "lemmas": ["pow_zero", "no_two_torsion"],
             "native_gen": lambda rng: dict(zip("xy", __import__("spec").ec.ec_mul(rng.randrange(1, 2**256), __import__("spec").ec.G)))},
    witnesses=[{"x": G_[0], "y": G_[1]}],
    note="the real encoder and decoder, every curve point, uncompressed form",
))


def _points():
    import random
    import spec
    rng = random.Random(141)
    ks = [1, 2, 3, spec.ec.N - 1, spec.ec.N - 2] + [rng.randrange(1, spec.ec.N) for _ in range(95)]
    for k in ks:
        q = spec.ec.ec_mul(k, spec.ec.G)
        for comp in (True, False):
            yield {"x": q[0], "y": q[1], "compressed": comp}


register(Theorem(
    "C14.sec1.roundtrip.bounded", P, params={"x": "int", "y": "int", "compressed": "bool"},
    requires=["spec.ec.on_curve(x, y)"],
    body="(bits.utils.point(bits.utils.pubkey(x, y, compressed=compressed)), bits.utils.pubkey(*bits.utils.point(bits.utils.pubkey(x, y, compressed=compressed)), compressed=compressed) == bits.utils.pubkey(x, y, compressed=compressed))",
    cases=[Case("ok", ensures={"point_back": "result[0] == (x, y)", "same_bytes": "result[1] is True"})],
    fuc=["bits.utils.point", "bits.utils.pubkey"],
    options={"bounded_only": True, "bounded_inputs": _points,
             "bound": "100 curve points (k*G for k in {1, 2, 3, n-1, n-2} and 95 random k) x both forms: point(pubkey(P)) == P and re-encoding gives the same "
                      "bytes.  The deductive version for the compressed form (square root + parity, contracts/pending_c14.py) was discharged only by a "
                      "40 s CLI query that times out when all cores are busy, so it is not registered.  BOUNDED, not proved"},
    witnesses=[],
))

# ---- WIF: decode(encode) for every key, network, address type and data suffix; unknown version bytes are refused
NETS = ["mainnet", "testnet", "regtest"]
TYPES = ["p2pkh", "p2wpkh", "p2sh-p2wpkh", "p2pk", "multisig", "p2sh", "p2wsh", "p2sh-p2wsh"]
WIF_BASE = {"mainnet": 0x80, "testnet": 0xEF, "regtest": 0xEF}
N_ = 0xFFFFFFFFFFFFFFFFFFFFFFFFFFFFFFFEBAAEDCE6AF48A03BBFD25E8CD0364141


def _wif(rng):
    k = rng.choice([1, 255, 256, N_ - 1, rng.randrange(1, N_), rng.randrange(1, 2 ** (8 * rng.randrange(1, 32)))])
    return {"key": k.to_bytes(32, "big"), "net": rng.choice(NETS), "kind": rng.choice(TYPES),
            "data": rng.choice([b"", b"\x01", bytes(rng.getrandbits(8) for _ in range(rng.choice([1, 22, 34, 71])))])}


for _net in NETS:
    for _kind in TYPES:
        _ver = WIF_BASE[_net] + TYPES.index(_kind)
        register(Theorem(
            f"C14.wif.roundtrip.{_net}.{_kind}", P, params={"key": "bytes:32", "net": ("enum", [_net]), "kind": ("enum", [_kind]), "data": "bytes"},
            requires=[f"1 <= int.from_bytes(key, 'big') < {N_}"],
            body="bits.utils.wif_decode(bits.utils.wif_encode(key, addr_type=kind, network=net, data=data))",
            cases=[Case("ok", ensures={"fields": f"result == ({bytes([_ver])!r}, key, data)"})],
            uses=[("C07.roundtrip.check", {"d": f"{bytes([_ver])!r} + key + data"})],
            modular=["bits.base58.base58encode", "bits.base58.base58decode"],
            fuc=["bits.utils.wif_encode", "bits.utils.wif_decode", "bits.utils.privkey_int"],
            options={"native_gen": (lambda n_, k_: (lambda rng: {**_wif(rng), "net": n_, "kind": k_}))(_net, _kind), "nla": False, "feas_ms": 300},
            witnesses=[{"key": (1).to_bytes(32, "big"), "net": _net, "kind": _kind, "data": b"\x01"},
                       {"key": (N_ - 1).to_bytes(32, "big"), "net": _net, "kind": _kind, "data": b""}],
            note="incl. keys with leading zero bytes (the key is a 32-byte string, every value in [1, n-1]) and every data suffix",
        ))
register(Theorem(
    "C14.wif.unknown_version", P, params={"d": "bytes"},
    requires=["len(d) == 0 or not (0x80 <= d[0] <= 0x87 or 0xEF <= d[0] <= 0xF6)"],
    body="bits.utils.wif_decode(bits.base58.base58check(d))",
    cases=[Case("refused", raises=(KeyError, ValueError, AssertionError))],
    uses=[("C07.roundtrip.check", {"d": "d"})],
    modular=["bits.base58.base58encode", "bits.base58.base58decode"], fuc=["bits.utils.wif_decode"],
    witnesses=[{"d": b""}, {"d": b"\x00" + bytes(32)}, {"d": b"\x88" + bytes(32)}, {"d": b"\xf7" + bytes(32)}],
    note="a checksum-valid Base58Check string whose version byte is not one of the 16 WIF versions is rejected",
))
register(Theorem(
    "C14.wif.bad_key_refused", P, params={"key": "bytes:32", "net": ("enum", NETS), "kind": ("enum", TYPES)},
    requires=[f"int.from_bytes(key, 'big') == 0 or int.from_bytes(key, 'big') >= {N_}"],
    body="bits.utils.wif_encode(key, addr_type=kind, network=net)",
    cases=[Case("refused", raises=(AssertionError,))],
    fuc=["bits.utils.wif_encode", "bits.utils.privkey_int"],
    witnesses=[{"key": bytes(32), "net": "mainnet", "kind": "p2pkh"}, {"key": b"\xff" * 32, "net": "testnet", "kind": "p2sh"}],
))


# ---- PEM: bounded stand-in (base64 + ASN.1 + compute_point are outside the symbolic engine's practical reach)
def _pem_inputs():
    import random
    import spec
    rng = random.Random(14)
    ks = [1, 2, 255, 256, 2**8 * 7, 2**128 - 1, 2**247, 2**248 - 1, 2**255, N_ - 1, N_ - 2]
    ks += [rng.randrange(1, 2 ** (8 * z)) for z in range(1, 32)]          # 1..31 leading zero bytes
    ks += [rng.randrange(1, N_) for _ in range(20)]
    for k in ks:
        yield {"key": k.to_bytes(32, "big")}
    for k in ks[:12]:
        q = spec.ec.ec_mul(k, spec.ec.G)
        yield {"key": spec.ec.sec1_encode(q[0], q[1], True)}
        yield {"key": spec.ec.sec1_encode(q[0], q[1], False)}


def _pem_check_src():
    return ("(lambda dec: (dec[0] == key and spec.ec.sec1_decode(dec[1]) == spec.ec.ec_mul(int.from_bytes(key, 'big'), spec.ec.G)) "
            "if len(key) == 32 else (len(dec) == 1 and spec.ec.sec1_decode(dec[0]) == spec.ec.sec1_decode(key)))"
            "(bits.utils.pem_decode_key(bits.utils.pem_encode_key(key)))")


register(Theorem(
    "C14.pem.roundtrip.bounded", P, params={"key": "bytes"},
    body=_pem_check_src(),
    cases=[Case("ok", ensures={"same_key": "result is True"})],
    fuc=["bits.utils.pem_encode_key", "bits.utils.pem_decode_key", "bits.pem.decode_pem", "bits.pem.parse_asn1", "bits.pem.encode_parsed_asn1"],
    options={"bounded_only": True, "bounded_inputs": _pem_inputs,
             "bound": "62 private keys (1, 2, 255, 256, n-1, n-2, powers of two, one key for each count 1..31 of leading zero bytes, 20 random) and 24 "
                      "public keys (compressed and uncompressed): pem_decode_key(pem_encode_key(k)) returns the same private key bytes and the public key "
                      "of k / the same point.  Interoperability with OpenSSL is NOT checked (no openssl oracle is used by this framework).  BOUNDED, not proved"},
    witnesses=[],
))
