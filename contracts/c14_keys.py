"""C14: key containers - SEC1 public keys, WIF, PEM."""
from pyvc.contracts import Theorem, Case, fn_contract, register

P = ["C14"]

register(fn_contract(
    "C14.pubkey", P + ["C08", "C09"], "bits.utils.pubkey", {"x": "int", "y": "int", "compressed": "bool"},
    requires=["spec.ec.on_curve(x, y)"],
    cases=[Case("ok", ensures={"sec1": "result == spec.ec.sec1_encode(x, y, compressed)",
                               "length": "len(result) == (33 if compressed else 65)"})],
    returns="bytes",
    witnesses=[{"x": 0x79BE667EF9DCBBAC55A06295CE870B07029BFCDB2DCE28D959F2815B16F81798, "y": 0x483ADA7726A3C4655DA4FBFC0E1108A8FD17B448A68554199C47D08FFB10D4B8, "compressed": c} for c in (True, False)],
))


def _pk(rng):
    import spec
    ec = spec.ec
    q = ec.ec_mul(rng.randrange(1, ec.N), ec.G)
    good = ec.sec1_encode(q[0], q[1], rng.random() < 0.5)
    k = rng.random()
    if k < 0.4:
        return {"pubkey_": good}
    if k < 0.5:
        return {"pubkey_": bytes([rng.choice([0, 1, 2, 3, 4, 5, 6, 7])]) + good[1:]}
    if k < 0.6:
        return {"pubkey_": good[:33] + bytes(32) if len(good) == 33 else good[:33]}
    if k < 0.7:
        return {"pubkey_": good[:1] + ec.P.to_bytes(32, "big") + good[33:]}
    if k < 0.8:
        return {"pubkey_": b"\x02" + (5).to_bytes(32, "big")}          # x = 5 is not on the curve
    return {"pubkey_": bytes(rng.getrandbits(8) for _ in range(rng.choice([0, 1, 32, 33, 34, 64, 65, 66])))}


register(fn_contract(
    "C14.point", P + ["C08", "C09", "C02", "C01"], "bits.utils.point", {"pubkey_": "bytes"},
    cases=[Case("accepted", when="spec.ec.sec1_ok(pubkey_)",
                ensures={"decodes": "result == (spec.ec.sec1_x(pubkey_), spec.ec.sec1_y(pubkey_))",
                         "on_curve": "spec.ec.on_curve(result[0], result[1])"}),
           Case("rejected", when="otherwise", raises=(AssertionError, ValueError))],
    returns="point", options={"native_gen": _pk, "feas_ms": 1500, "nla": False, "refine_len": True, "lemmas": ["pow_zero", "no_two_torsion"],
                              "assumptions": ["A-prime-p; lemmas pow_eq_zero_field and no_two_torsion (lean/Field.lean)"]},
    witnesses=[{"pubkey_": bytes.fromhex("0279BE667EF9DCBBAC55A06295CE870B07029BFCDB2DCE28D959F2815B16F81798")},
               {"pubkey_": bytes.fromhex("0279BE667EF9DCBBAC55A06295CE870B07029BFCDB2DCE28D959F2815B16F81798") + b"\xaa" * 32},
               {"pubkey_": b"\x04" + bytes.fromhex("79BE667EF9DCBBAC55A06295CE870B07029BFCDB2DCE28D959F2815B16F81798")},
               {"pubkey_": b""}],
))
register(fn_contract(
    "C14.is_point", P + ["C08"], "bits.utils.is_point", {"pubkey_": "bytes"},
    cases=[Case("total", ensures={"bool": "result is True or result is False",
                                  "iff": "result == spec.ec.sec1_ok(pubkey_)"})],
    modular=["bits.utils.point@C14.point"], returns="bool", options={"native_gen": _pk},
    witnesses=[{"pubkey_": b""}, {"pubkey_": b"\x02" * 33}],
))

# ---- SEC1 round trip: decoding the encoding of a curve point gives the point back (both forms)
G_ = (0x79BE667EF9DCBBAC55A06295CE870B07029BFCDB2DCE28D959F2815B16F81798, 0x483ADA7726A3C4655DA4FBFC0E1108A8FD17B448A68554199C47D08FFB10D4B8)
for comp in (True, False):
    register(Theorem(
        f"C14.sec1.roundtrip.{'compressed' if comp else 'uncompressed'}", P + ["C09", "C08"], params={"x": "int", "y": "int"},
        requires=["0 <= x < spec.ec.P", "0 <= y < spec.ec.P", "spec.ec.on_curve(x, y)"],
        body=f"spec.ec.sec1_decode(spec.ec.sec1_encode(x, y, {comp}))",
        cases=[Case("ok", ensures={"point_back": "result == (x, y)"})],
        options={"lemmas": ["sqrt_root", "sq_eq", "no_two_torsion"], "nla": False,
                 "native_gen": lambda rng: dict(zip("xy", __import__("spec").ec.ec_mul(rng.randrange(1, 2**256), __import__("spec").ec.G))),
                 "assumptions": ["A-prime-p; field lemmas sqrt_root (p = 3 mod 4), sq_eq, no_two_torsion"]},
        witnesses=[{"x": G_[0], "y": G_[1]}],
        note="spec-level lemma (the decoder is the one C14.point is proved against): used by C09's public extended-key round trip",
    ))
