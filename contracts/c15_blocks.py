"""C15: merkle root, coinbase rules, block header round trip."""
from pyvc.contracts import Theorem, Case, Loop, fn_contract, register

P = ["C15"]

register(Theorem(
    "C15.header.roundtrip", P,
    params={"version": "int", "prev": "bytes:32", "root": "bytes:32", "ntime": "int", "nbits": "bytes:4", "nonce": "int"},
    requires=["0 <= version < 2**32", "0 <= ntime < 2**32", "0 <= nonce < 2**32"],
    body="bits.blockchain.block_header_deser(bits.blockchain.block_header(version, prev, root, ntime, nbits, nonce))",
    cases=[Case("ok", ensures={"fields": "result == {'version': version, 'prev_blockheaderhash': prev.hex(), "
                                         "'merkle_root_hash': root.hex(), 'nTime': ntime, 'nBits': nbits.hex(), 'nNonce': nonce}"})],
    fuc=["bits.blockchain.block_header", "bits.blockchain.block_header_deser"],
    witnesses=[{"version": 1, "prev": b"\x00" * 32, "root": b"\x3b" * 32, "ntime": 1231006505, "nbits": b"\xff\xff\x00\x1d", "nonce": 2083236893}],
))

register(fn_contract(
    "C15.block_header", P, "bits.blockchain.block_header",
    {"version": "int", "prev_blockheaderhash": "bytes:32", "merkle_root_hash": "bytes:32", "ntime": "int", "nBits": "bytes:4", "nNonce": "int"},
    requires=["0 <= version < 2**32", "0 <= ntime < 2**32", "0 <= nNonce < 2**32"],
    cases=[Case("ok", ensures={"len80": "len(result) == 80",
                               "layout": "result == version.to_bytes(4, 'little') + prev_blockheaderhash + merkle_root_hash + "
                                         "ntime.to_bytes(4, 'little') + nBits + nNonce.to_bytes(4, 'little')"})],
    witnesses=[{"version": 2, "prev_blockheaderhash": b"\x01" * 32, "merkle_root_hash": b"\x02" * 32, "ntime": 0, "nBits": b"\x00" * 4, "nNonce": 2**32 - 1}],
))

register(fn_contract(
    "C15.coinbase_txin", P, "bits.tx.coinbase_txin",
    {"coinbase_script": "bytes", "sequence": "bytes:4", "block_height": "optional:int"},
    requires=["block_height is None or 0 <= block_height < 2**32"],
    lets={"script": "coinbase_script if block_height is None else spec.block.bip34_push(block_height) + coinbase_script"},
    cases=[
        Case("ok", when="len(script) <= 100", ensures={
            "null_outpoint": "result[:36] == spec.block.NULL_OUTPOINT",
            "layout": "result == spec.block.NULL_OUTPOINT + bytes([len(script)]) + script + sequence",
            "height_minimal": "block_height is None or block_height <= 16 or ("
                              "block_height < 2 ** (8 * spec.block.scriptnum_len(block_height) - 1) and "
                              "(spec.block.scriptnum_len(block_height) == 1 or "
                              "block_height >= 2 ** (8 * (spec.block.scriptnum_len(block_height) - 1) - 1)))",
        }),
        Case("too_long", when="len(script) > 100", raises=(ValueError,)),
    ],
    returns="bytes",
    witnesses=[{"coinbase_script": b"", "sequence": b"\xff" * 4, "block_height": None},
               {"coinbase_script": b"\x01" * 99, "sequence": b"\xff" * 4, "block_height": 0},
               {"coinbase_script": b"/bits/", "sequence": b"\xff" * 4, "block_height": 16},
               {"coinbase_script": b"/bits/", "sequence": b"\xff" * 4, "block_height": 17},
               {"coinbase_script": b"/bits/", "sequence": b"\xff" * 4, "block_height": 128},
               {"coinbase_script": b"/bits/", "sequence": b"\xff" * 4, "block_height": 32768},
               {"coinbase_script": b"\x00" * 100, "sequence": b"\xff" * 4, "block_height": 2**31 - 1}],
))


CB_WIT = [
    {"coinbase_script": b"bits", "script_pubkey": b"\x51", "block_reward": None, "block_height": 1, "regtest": False, "witness_merkle_root_hash": None},
    {"coinbase_script": b"bits", "script_pubkey": b"\x51", "block_reward": None, "block_height": 209999, "regtest": False, "witness_merkle_root_hash": None},
    {"coinbase_script": b"bits", "script_pubkey": b"\x51", "block_reward": None, "block_height": 210000, "regtest": False, "witness_merkle_root_hash": b"\x07" * 32},
    {"coinbase_script": b"bits", "script_pubkey": b"\x51", "block_reward": None, "block_height": 150, "regtest": True, "witness_merkle_root_hash": None},
    {"coinbase_script": b"bits", "script_pubkey": b"\x51", "block_reward": None, "block_height": 0, "regtest": True, "witness_merkle_root_hash": None},
    {"coinbase_script": b"bits", "script_pubkey": b"\x51", "block_reward": 5000000001, "block_height": 5, "regtest": False, "witness_merkle_root_hash": None},
    {"coinbase_script": b"", "script_pubkey": b"", "block_reward": 17, "block_height": None, "regtest": False, "witness_merkle_root_hash": None},
    {"coinbase_script": b"x", "script_pubkey": b"\x00" * 300, "block_reward": 1, "block_height": 13440000, "regtest": False, "witness_merkle_root_hash": None},
]


def _cb(rng):
    h = rng.choice([None, 0, 1, 16, 17, 127, 128, 149, 150, 151, 32767, 32768, 209999, 210000, 420000, 13439999, 13440000, 2**31 - 1])
    rw = rng.choice([None, None, 1, 5000000000, 2500000000, 2500000001, 1250000000, 39062500])
    if h is None and rw is None:
        rw = 7
    return {"coinbase_script": bytes(rng.getrandbits(8) for _ in range(rng.choice([0, 4, 90, 94, 95]))),
            "script_pubkey": bytes(rng.getrandbits(8) for _ in range(rng.choice([0, 1, 25, 253]))),
            "block_reward": rw, "block_height": h, "regtest": rng.random() < 0.5,
            "witness_merkle_root_hash": rng.choice([None, bytes(rng.getrandbits(8) for _ in range(32))])}


# one contract per shape of the height argument (absent / pushed as OP_n / pushed as a script number), so that the
# expected coinbase script is a single expression in each
for tag, hty, hreq in (("no_height", ("enum", [None]), []),
                       ("height_0_16", ("enum", list(range(17))), []),
                       ("height_17_up", "int", ["17 <= block_height < 2**32"])):
    register(fn_contract(
        f"C15.coinbase_tx.{tag}", P, "bits.tx.coinbase_tx",
        {"coinbase_script": "bytes", "script_pubkey": "bytes", "block_reward": "optional:int", "block_height": hty,
         "regtest": "bool", "witness_merkle_root_hash": "optional:bytes:32"},
        requires=hreq + ["block_reward is None or 1 <= block_reward < 2**64",
                         "block_height is not None or block_reward is not None",
                         "len(script_pubkey) <= 10000",
                         "len(coinbase_script) + (0 if block_height is None else len(spec.block.bip34_push(block_height))) <= 100"],
        lets={"script": "coinbase_script if block_height is None else spec.block.bip34_push(block_height) + coinbase_script",
              "cap": "None if block_height is None else spec.block.subsidy(block_height, spec.block.halving_interval(regtest))"},
        cases=[
            Case("default_reward", when="block_height is not None and block_reward is None", ensures={
                "exact_subsidy": "result == spec.block.coinbase_tx_ser(script, script_pubkey, cap, witness_merkle_root_hash)"}),
            Case("explicit_reward_ok", when="block_reward is not None and (block_height is None or block_reward <= cap)", ensures={
                "claims_reward": "result == spec.block.coinbase_tx_ser(script, script_pubkey, block_reward, witness_merkle_root_hash)"}),
            Case("reward_too_high", when="block_reward is not None and block_height is not None and block_reward > cap",
                 raises=(AssertionError,)),
        ],
        options={"native_gen": _cb},
        witnesses=[w for w in CB_WIT if (tag == "no_height") == (w["block_height"] is None)
                   and (w["block_height"] is None or (tag == "height_0_16") == (w["block_height"] <= 16))],
    ))

# merkle_root: proved for every list length - no IndexError (every level is padded to an even length before it is
# paired), termination (the level shrinks), result is a 32-byte string.  The functional equality with spec.block.merkle
# needs list extensionality over (Seq (Seq Int)) in the outer 'preserve' step, which stayed undecided in z3 and cvc5
# within budget here; it is covered by a BOUNDED stand-in instead (every list length 1..300: the tree shape depends
# only on the length), reported under bounded_standins and never counted as proved.
MERKLE_OUTER = Loop(
    invariant=["len(row) >= 1", "forall(lambda j: len(row[j]) == 32, 0, len(row))"],
    decreases="len(row)",
    types={"row": "list:bytes", "branches": "list:bytes"},
)
MERKLE_INNER = Loop(
    invariant=["len(branches) == _k", "len(row) % 2 == 0", "len(row) >= 2",
               "forall(lambda j: len(branches[j]) == 32, 0, _k)"],
    types={"branches": "list:bytes"},
)


def _merkle_lengths():
    for n in range(1, 301):
        yield {"txns": [n.to_bytes(2, "big") + bytes([i % 256, i // 256]) * 15 for i in range(n)]}


register(fn_contract(
    "C15.merkle_root", P, "bits.blockchain.merkle_root", {"txns": "list:bytes:32"},
    requires=["len(txns) >= 1"],
    cases=[Case("ok", ensures={"is_hash": "len(result) == 32"})],
    loops={("bits.blockchain.merkle_root", 1): MERKLE_OUTER, ("bits.blockchain.merkle_root", 2): MERKLE_INNER},
    options={"native_gen": lambda rng: {"txns": [bytes(rng.getrandbits(8) for _ in range(32)) for _ in range(rng.choice([1, 2, 3, 4, 5, 6, 7, 8, 9, 11, 12, 13, 17, 31, 33]))]}},
    witnesses=[{"txns": [bytes([i]) * 32 for i in range(n)]} for n in (1, 2, 3, 4, 5, 6, 7, 9, 11)],
))

register(Theorem(
    "C15.merkle_root.equals_spec", P, params={"txns": "list:bytes:32"}, requires=["len(txns) >= 1"],
    body="bits.blockchain.merkle_root(txns)",
    cases=[Case("ok", ensures={"root": "result == spec.block.merkle(txns)"})],
    options={"bounded_only": True, "bounded_inputs": _merkle_lengths,
             "bound": "every list length 1..300 with pairwise distinct 32-byte ids (exhaustive over lengths in that range)"},
    fuc=["bits.blockchain.merkle_root"],
))
