"""C17: P2P framing under every fragmentation, corruption detection, payload codecs."""
from pyvc.contracts import Theorem, Case, Loop, fn_contract, register
import bits.p2p as _p

P = ["C17"]
CMDS = list(_p.COMMANDS)
MAGICS = [_p.MAINNET_START]

register(fn_contract(
    "C17.msg_ser", P + ["C18"], "bits.p2p.msg_ser", {"start_bytes": "bytes:4", "command": ("enum", CMDS), "payload": "bytes"},
    cases=[Case("ok", when="len(payload) <= bits.p2p.MAX_SIZE", ensures={
                "frame": "result == spec.p2p.frame(start_bytes, command, payload)", "length": "len(result) == 24 + len(payload)"}),
           Case("oversize", when="len(payload) > bits.p2p.MAX_SIZE", raises=(ValueError,))],
    returns="bytes",
    witnesses=[{"start_bytes": b"\xf9\xbe\xb4\xd9", "command": b"verack", "payload": b""},
               {"start_bytes": b"\xf9\xbe\xb4\xd9", "command": b"ping", "payload": b"\x01" * 8}],
))
register(fn_contract(
    "C17.msg_ser.unknown_command", P, "bits.p2p.msg_ser", {"start_bytes": "bytes:4", "command": "bytes", "payload": "bytes"},
    requires=["command not in bits.p2p.COMMANDS"],
    cases=[Case("refused", raises=(ValueError,))],
    witnesses=[{"start_bytes": b"\xf9\xbe\xb4\xd9", "command": b"bogus", "payload": b""}],
))

RECV_L1 = Loop(
    invariant=["len(msg) <= 24", "ghost_pos == len(msg)", "msg == ghost_stream[:ghost_pos]", "ghost_pos <= len(ghost_stream)"],
    decreases="24 - len(msg)", types={"ghost_pos": "int"},
)
RECV_L2 = Loop(
    invariant=["len(payload) <= payload_size", "ghost_pos == 24 + len(payload)", "payload == ghost_stream[24:ghost_pos]",
               "ghost_pos <= len(ghost_stream)"],
    decreases="payload_size - len(payload)", types={"ghost_pos": "int"},
)


def _streams(rng):
    pay = bytes(rng.getrandbits(8) for _ in range(rng.choice([0, 0, 8, 8, 1, 30, 100])))
    cmd = rng.choice(CMDS)
    s = __import__("spec").p2p.frame(_p.MAINNET_START, cmd, pay)
    tail = rng.choice([b"", b"", __import__("spec").p2p.frame(_p.MAINNET_START, b"ping", b"\x07" * 8), b"\x00" * 5])
    s = s + tail
    k = rng.random()
    if k < 0.25:
        s = s[:rng.randrange(0, 24 + len(pay))]          # peer closes early
    elif k < 0.4:
        i = rng.randrange(len(s) - len(tail))
        s = s[:i] + bytes([s[i] ^ (1 << rng.randrange(8))]) + s[i + 1:]   # one bit flipped
    return {"stream": s, "cuts": [rng.choice([1, 1, 2, 3, 5, 24, 100]) for _ in range(rng.randrange(0, 40))]}


register(Theorem(
    "C17.recv_msg", P + ["C18"], params={"stream": "bytes", "cuts": "list:int"},
    lets={"L": "int.from_bytes(stream[16:20], 'little')"},
    body="spec.p2p.recv_one(stream, cuts)",
    cases=[
        Case("complete", when="len(stream) >= 24 and len(stream) >= 24 + L and stream[:4] == bits.p2p.MAGIC_START_BYTES "
                              "and stream[20:24] == spec.p2p.dsha(stream[24:24 + L])[:4]",
             ensures={"magic": "result[0][0] == stream[:4]",
                      "command": "result[0][1] == stream[4:16].rstrip(b'\\x00')",
                      "payload": "result[0][2] == stream[24:24 + L]",
                      "no_over_read": "result[1] == 24 + L"}),
        Case("bad_magic_or_checksum", when="len(stream) >= 24 and len(stream) >= 24 + L and (stream[:4] != bits.p2p.MAGIC_START_BYTES "
                                           "or stream[20:24] != spec.p2p.dsha(stream[24:24 + L])[:4])",
             raises=(ValueError,)),
        Case("peer_closed_early", when="len(stream) < 24 or len(stream) < 24 + L",
             raises=(ValueError, ConnectionError, EOFError, OSError)),
    ],
    loops={("bits.p2p.recv_msg", 1): RECV_L1, ("bits.p2p.recv_msg", 2): RECV_L2},
    fuc=["bits.p2p.recv_msg"],
    options={"native_gen": _streams, "assumptions": ["A-sock: socket model (see pyvc/ghosts.py)",
             "A-checksum: 'a flipped payload bit is rejected' holds modulo a collision of the 32-bit truncated double-SHA256 (hashes are uninterpreted)"]},
    witnesses=[{"stream": __import__("spec").p2p.frame(_p.MAINNET_START, b"ping", b"\x01" * 8) + b"\xf9\xbe", "cuts": [1] * 40},
               {"stream": __import__("spec").p2p.frame(_p.MAINNET_START, b"verack", b""), "cuts": []},
               {"stream": __import__("spec").p2p.frame(_p.MAINNET_START, b"verack", b"")[:10], "cuts": [3, 3]}],
))

# ------------------------------------------------------------------ payload codecs: parse(build(args)) == args
register(Theorem(
    "C17.codec.ping", P + ["C18"], params={"nonce": "int"}, requires=["0 <= nonce < 2**64"],
    body="bits.p2p.parse_ping_payload(bits.p2p.ping_payload(nonce))",
    cases=[Case("ok", ensures={"nonce": "result == {'nonce': nonce}"})],
    fuc=["bits.p2p.ping_payload", "bits.p2p.parse_ping_payload"], witnesses=[{"nonce": 0}, {"nonce": 2**64 - 1}],
))
register(Theorem(
    "C17.codec.version", P + ["C18"],
    params={"start_height": "int", "recv_port": "int", "trans_port": "int", "pv": "int", "services": "int", "relay": "bool"},
    requires=["0 <= start_height < 2**32", "0 <= recv_port < 2**16", "0 <= trans_port < 2**16", "0 <= pv < 2**32", "0 <= services < 2**64"],
    body="bits.p2p.parse_version_payload(bits.p2p.version_payload(start_height, recv_port, trans_port, protocol_version=pv, services=services, relay=relay))",
    cases=[Case("ok", ensures={
        "protocol_version": "result['protocol_version'] == pv", "services": "result['services'] == services",
        "ports": "result['addr_recv_port'] == recv_port and result['addr_trans_port'] == trans_port",
        "addr_services": "result['addr_recv_services'] == 0 and result['addr_trans_services'] == services",
        "ip": "result['addr_recv_ip_addr'] == '::ffff:127.0.0.1' and result['addr_trans_ip_addr'] == '::ffff:127.0.0.1'",
        "nonce": "result['nonce'] == 0",
        "user_agent": "result['user_agent_bytes'] == 12 and result['user_agent'] == b'/bits:0.1.0/'",
        "start_height": "result['start_height'] == start_height",
        "relay": "'relay' in result and result['relay'] is relay",
        "timestamp": "0 <= result['timestamp'] < 2**63"})],
    fuc=["bits.p2p.version_payload", "bits.p2p.parse_version_payload"],
    options={"assumptions": ["A-clock: time.time() returns some t with 0 <= int(t) < 2**63"]},
    witnesses=[{"start_height": 0, "recv_port": 8333, "trans_port": 18444, "pv": 70015, "services": 1, "relay": True},
               {"start_height": 2**32 - 1, "recv_port": 0, "trans_port": 65535, "pv": 70016, "services": 0x409, "relay": False}],
))
register(Theorem(
    "C17.codec.inventory", P, params={"type_id": ("enum", sorted(_p.INVENTORY_TYPE_ID)), "h": "bytes:32"},
    body="bits.p2p.parse_inventory(bits.p2p.inventory(type_id, h))",
    cases=[Case("ok", ensures={"record": "result == {'type_id': type_id, 'hash': h.hex()}"})],
    fuc=["bits.p2p.inventory", "bits.p2p.parse_inventory"], witnesses=[{"type_id": "MSG_WITNESS_BLOCK", "h": b"\x09" * 32}],
))
register(Theorem(
    "C17.codec.network_ip_addr", P, params={"t": "int", "services": "bytes:8", "ip": "bytes:16", "port": "int"},
    requires=["0 <= t < 2**32", "0 <= port < 2**16"],
    body="bits.p2p.parse_network_ip_addr(bits.p2p.network_ip_addr(t, services, ip, port))",
    cases=[Case("ok", ensures={"record": "result == {'time': t, 'services': services, 'ip_addr': ip, 'port': port}"})],
    fuc=["bits.p2p.network_ip_addr", "bits.p2p.parse_network_ip_addr"],
    witnesses=[{"t": 1700000000, "services": b"\x01" + b"\x00" * 7, "ip": b"\x00" * 10 + b"\xff\xff\x7f\x00\x00\x01", "port": 8333}],
))
for n in range(0, 4):
    hs = [f"h{i}" for i in range(n)]
    register(Theorem(
        f"C17.codec.getheaders.{n}_hashes", P, params={"pv": "int", **{h: "bytes:32" for h in hs}, "stop": "bytes:32"},
        requires=["0 <= pv < 2**32"],
        body=f"bits.p2p.parse_getheaders_payload(bits.p2p.getheaders_payload(pv, {n}, [{', '.join(hs)}], stop))",
        cases=[Case("ok", ensures={"record": "result == {'protocol_version': pv, 'hash_count': %d, %s'stop_hash': stop.hex()}" % (
            n, ("'block_header_hashes': [%s], " % ", ".join(h + ".hex()" for h in hs)) if n else "")})],
        fuc=["bits.p2p.getheaders_payload", "bits.p2p.parse_getheaders_payload"],
        witnesses=[{"pv": 70015, **{h: bytes([i + 1]) * 32 for i, h in enumerate(hs)}, "stop": b"\x00" * 32}],
    ))
    inv = [f"i{k}" for k in range(n)]
    register(Theorem(
        f"C17.codec.inv.{n}_items", P, params={**{k: "bytes:32" for k in inv}},
        body="bits.p2p.parse_inv_payload(bits.p2p.inv_payload(%d, [%s]))" % (n, ", ".join("bits.p2p.inventory('MSG_TX', %s)" % k for k in inv)),
        cases=[Case("ok", ensures={"record": "result == {'count': %d, 'inventory': [%s]}" % (
            n, ", ".join("{'type_id': 'MSG_TX', 'hash': %s.hex()}" % k for k in inv))})],
        fuc=["bits.p2p.inv_payload", "bits.p2p.parse_inv_payload"],
        witnesses=[{k: bytes([i + 7]) * 32 for i, k in enumerate(inv)}],
    ))
    ads = [f"a{k}" for k in range(n)]
    register(Theorem(
        f"C17.codec.addr.{n}_addrs", P, params={**{a: "bytes:30" for a in ads}},
        body=f"bits.p2p.parse_addr_payload(bits.p2p.addr_payload({n}, [{', '.join(ads)}]))",
        cases=[Case("ok", ensures={"record": "result == {'addrs': [%s]}" % ", ".join(f"bits.p2p.parse_network_ip_addr({a})" for a in ads)})],
        fuc=["bits.p2p.addr_payload", "bits.p2p.parse_addr_payload"],
        witnesses=[{a: bytes([i + 1]) * 30 for i, a in enumerate(ads)}],
    ))

# CompactSize count prefixes of the hand-rolled parsers: every count 0 .. 2**64-1 is read back (body arbitrary)
register(Theorem(
    "C17.codec.getheaders.count_prefix", P, params={"pv": "int", "n": "int", "body": "bytes"},
    requires=["0 <= pv < 2**32", "0 <= n < 2**64"],
    body="bits.p2p.parse_getheaders_payload(pv.to_bytes(4, 'little') + spec.compact_size(n) + body[:32])",
    cases=[Case("ok", ensures={"count": "result['hash_count'] == n"})],
    fuc=["bits.p2p.parse_getheaders_payload"],
    witnesses=[{"pv": 1, "n": v, "body": b"\x00" * 32} for v in (0, 252, 253, 65535, 65536, 2**32 - 1, 2**32, 2**64 - 1)],
))
