"""C18: node message queue - one iteration of the per-peer receive loop, sequentially and under interference."""
from pyvc.contracts import Theorem, Case, register
import bits.p2p as _p

P = ["C18"]
PAY = {
    b"ping": ("bits.p2p.ping_payload(x)", {"x": "int"}, ["0 <= x < 2**64"]),
    b"version": ("bits.p2p.version_payload(x, 8333, 8334)", {"x": "int"}, ["0 <= x < 2**32"]),
    b"verack": ("b''", {}, []),
    b"inv": ("bits.p2p.inv_payload(1, [bits.p2p.inventory('MSG_TX', h)])", {"h": "bytes:32"}, []),
    b"addr": ("bits.p2p.addr_payload(1, [a])", {"a": "bytes:30"}, []),
    b"getaddr": ("b''", {}, []),      # a command the node has no parser / handler for
}
HANDLED = (b"ping", b"version", b"verack")

for rely in (False, True):
    for cmd, (pay, params, reqs) in PAY.items():
        for nq in (0, 1, 2):
            q = [f"('p1', b'inv', q{i})" for i in range(nq)]
            qparams = {f"q{i}": "int" for i in range(nq)}
            name = f"C18.iteration.{cmd.decode()}.queue{nq}" + (".rely" if rely else "")
            own = f"(0, {cmd!r}, parsed)"
            if cmd in HANDLED:
                queue_post = "[t for t in result[0] if t[0] == 0] == []"
            else:
                queue_post = f"[t for t in result[0] if t[0] == 0] == [{own}]"
            sent = {b"ping": f"[bits.p2p.msg_ser(bits.p2p.MAGIC_START_BYTES, b'pong', {pay})]",
                    b"version": "[bits.p2p.msg_ser(bits.p2p.MAGIC_START_BYTES, b'verack', b'')]"}.get(cmd, "[]")
            register(Theorem(
                name, P, params={**params, **qparams}, requires=list(reqs),
                lets={"parsed": f"bits.p2p.parse_payload({cmd!r}, {pay})"},
                body=f"spec.p2p.node_iteration(0, {cmd!r}, {pay}, [{', '.join(q)}], {rely})",
                cases=[Case("ok", ensures={
                    "own_messages": queue_post,
                    "others_untouched": f"[t for t in result[0] if t[0] != 0][:{nq}] == [{', '.join(q)}]",
                    "nothing_foreign_lost": f"len([t for t in result[0] if t[0] != 0]) >= {nq}",
                    "reply_to_sender": f"result[1][0] == {sent}",
                    "no_reply_to_others": "result[1][1] == []",
                    "version_recorded": "True" if cmd != b"version" else
                    "result[2][0][b'version']['start_height'] == x and result[2][0][b'version']['protocol_version'] == 70015 "
                    "and result[2][0][b'version']['relay'] is True and result[2][1] == {}"})],
                fuc=["bits.p2p.Node.recv_loop", "bits.p2p.Node.handle_command", "bits.p2p.parse_payload"],
                options={"assumptions": ["A-gil: one method call on the deque is atomic",
                                                       "A-rg: soundness of rely/guarantee reasoning; the rely instance checked is: another peer's append lands right after this thread's first queue operation",
                                                       "recv_msg is replaced by its contract C17.recv_msg (complete frame)"]},
                witnesses=[{**{k: (7 if t == "int" else bytes(int(t.split(":")[1]))) for k, t in params.items()},
                                            **{f"q{i}": i for i in range(nq)}}],
            ))
