"""C19: block file store - every block, in order, in bounded append-only files (file-system ghost model)."""
import itertools

from pyvc.contracts import Theorem, Case, register

P = ["C19"]
MAGIC = "bits.p2p.MAGIC_START_BYTES"

for nf in (0, 1, 2, 3):
    for nb in (0, 1, 2, 3):
        cs = [f"c{i}" for i in range(nf)]
        bs = [f"b{j}" for j in range(nb)]
        old = " + ".join(cs) if cs else "b''"
        ens = {
            "record_stream": f"b''.join([c for _, c in result]) == {old} + spec.fs.records({MAGIC}, [{', '.join(bs)}])",
            "consecutive_names": "[n for n, _ in result] == [spec.fs.name(i) for i in range(len(result))]",
            "bounded_files": "all(len(c) <= limit for _, c in result)",
            "no_file_removed": f"len(result) >= {max(nf, 1)}",
        }
        for i in range(nf - 1):
            ens[f"closed_file_{i}_untouched"] = f"result[{i}][1] == c{i}"
        if nf:
            ens["last_file_only_appended"] = f"result[{nf - 1}][1][:len(c{nf - 1})] == c{nf - 1}"
        register(Theorem(
            f"C19.write.{nf}_files.{nb}_blocks", P,
            params={**{c: "bytes" for c in cs}, **{b: "bytes" for b in bs}, "limit": "int",
                    "order": ("enum", [list(p_) for p_ in itertools.permutations(range(nf))])},
            requires=["limit >= 8"] + [f"len({c}) <= limit" for c in cs] + [f"8 + len({b}) <= limit" for b in bs] + [f"len({b}) < 2**32" for b in bs],
            body=f"spec.fs.run_write([{', '.join(cs)}], [{', '.join(bs)}], limit, order, ('notes.txt',))",
            cases=[Case("ok", ensures=ens)],
            fuc=["bits.p2p.write_blocks_to_disk"],
            options={"assumptions": ["A-fs: file-system model of pyvc/ghosts.py; os.listdir may answer in any order (every permutation is explored)",
                                     "crash safety is the frame clause: the only effects are create / append-at-end / close, so any prefix of the effect sequence leaves a prefix of the record stream (not a statement about real disks)"],
                     "native_gen": (lambda nf_, nb_: (lambda rng: {**{f"c{i}": bytes(rng.getrandbits(8) for _ in range(rng.choice([0, 1, 40, 92, 100]))) for i in range(nf_)},
                                                                    **{f"b{j}": bytes(rng.getrandbits(8) for _ in range(rng.choice([0, 1, 30, 60, 92]))) for j in range(nb_)},
                                                                    "limit": 100, "order": rng.choice([list(p_) for p_ in itertools.permutations(range(nf_))])}))(nf, nb)},
            witnesses=[{**{c: b"\x01" * 50 for c in cs}, **{b: b"\x02" * 60 for b in bs}, "limit": 100, "order": list(range(nf))[::-1]}],
        ))
