"""C20: option precedence (explicit flag > config file (TOML over JSON) > construction value > default) and conversions."""
import itertools

from pyvc.contracts import Theorem, Case, register
import spec.cli as _cli

P = ["C20"]

# one theorem per option name.  Presence of the option in each of the four sources is a boolean parameter (all 2^4
# combinations x which files exist), its values are arbitrary; a second known option and an unknown key are always present
# in every source so that merging / leaking across keys and files is exercised.
for k in _cli.OPTION_NAMES:
    other = "network" if k != "network" else "log_level"

    def src(present, val, oval, _k=k, _other=other):
        return "{%s'%s': %s, 'bogus_key': 99}" % (("'%s': %s, " % (_k, val)) if present else "", _other, oval)

    for in_a, in_j, in_t, in_e, has_j, has_t in itertools.product((False, True), repeat=6):
        if (in_j and not has_j) or (in_t and not has_t):
            continue
        name = f"C20.precedence.{k}." + "".join("1" if b else "0" for b in (in_a, in_j, in_t, in_e, has_j, has_t))
        A = "{%s}" % (("'%s': va" % k) if in_a else "")
        J = src(in_j, "vj", "oj") if has_j else "None"
        T = src(in_t, "vt", "ot") if has_t else "None"
        Ee = "{%s}" % (("'%s': ve" % k) if in_e else "")
        register(Theorem(
            name, P, params={"va": "int", "vj": "int", "vt": "int", "ve": "int", "oj": "int", "ot": "int"},
            body=f"spec.cli.effective_config({A}, {J}, {T}, {Ee})",
            cases=[Case("ok", ensures={
                "value_in_effect": f"result['{k}'] == spec.cli.precedence('{k}', {A}, {J}, {T}, {Ee})",
                "other_option": f"result['{other}'] == spec.cli.precedence('{other}', {{}}, {J}, {T}, {{}})",
                "only_defined_options": "sorted(result.keys()) == sorted(spec.cli.OPTION_NAMES)"})],
            fuc=["bits.config.Config.__init__", "bits.config.Config.load_config", "bits.config.Config.update"],
            options={"assumptions": ["A-fs (configuration directory model); HAS_TOMLLIB is True on this interpreter",
                                     "A-argparse: the CLI passes exactly the explicitly given options to Config.update (see C20.parser.explicit_actions)"]},
            witnesses=[{"va": 1, "vj": 2, "vt": 3, "ve": 4, "oj": 5, "ot": 6}],
        ))

register(Theorem(
    "C20.parser.explicit_actions", P, params={}, body="spec.cli.parser_registry()",
    cases=[Case("ok", ensures={"every_option_marks_explicit_use": "all(cls == 'ExplicitOption' for _, _, cls in result)",
                               "registered_somewhere": "len(result) >= 8"})],
    options={"bounded_only": True, "bounded_inputs": lambda: iter([{}]),
             "bound": "ground fact: the (finite) argparse registry built by running the real setup_parser() once; exhaustive over every subcommand and option"},
    fuc=["bits.__main__.setup_parser"],
))


def _convs():
    for n in list(range(0, 40)) + [255, 256, 1000]:
        for pat in (b"\x00", b"\xff", b"\x01", b"\x80", b"\x5a"):
            for fmt in ("raw", "hex", "bin"):
                yield {"data": pat * n, "fmt": fmt}
                yield {"data": (b"\x00" * (n // 2)) + pat * (n - n // 2), "fmt": fmt}


register(Theorem(
    "C20.convert.roundtrip", P, params={"data": "bytes", "fmt": ("enum", ["raw", "hex", "bin"])},
    body="spec.cli.convert_roundtrip(data, fmt)",
    cases=[Case("ok", ensures={"lossless": "result == data"})],
    options={"bounded_only": True, "bounded_inputs": _convs,
             "bound": "lengths 0..39, 255, 256, 1000 x 5 byte patterns x leading-zero variants x 3 formats (file objects and str formatting are outside the engine's subset)"},
    fuc=["bits.read_bytes", "bits.write_bytes"],
))
register(Theorem(
    "C20.convert.left_pad", P, params={"text": ("enum", ["f", "abc", "0", "1", "101", "111111111", "00f", "\n1f\n"]), "fmt": ("enum", ["hex", "bin"])},
    requires=["fmt == 'hex' or all(c in '01\\n' for c in text)"],
    body="spec.cli.read_text(text, fmt)",
    cases=[Case("ok", ensures={"left_padded": "int.from_bytes(result, 'big') == int(text.strip(), 16 if fmt == 'hex' else 2) and "
                                              "len(result) == (len(text.strip()) + (1 if fmt == 'hex' else 7)) // (2 if fmt == 'hex' else 8)"})],
    options={"bounded_only": True, "bounded_inputs": lambda: ({"text": t, "fmt": f} for f in ("hex", "bin") for t in (["f", "abc", "0", "00f", "\n1f\n"] if f == "hex" else ["1", "101", "111111111", "0", "\n101\n"])),
             "bound": "10 sample texts that are not a whole number of bytes"},
    fuc=["bits.read_bytes"],
))
