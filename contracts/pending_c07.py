"""Not loaded by the driver (file name does not match c*.py): theorem text kept for a later round."""
PENDING = r'''
register(Theorem(
    "C07.roundtrip.check", P, params={"d": "bytes"},
    body="bits.base58.base58check_decode(bits.base58.base58check(d))",
    cases=[Case("ok", ensures={"inverse": "result == d"})],
    uses=[("C07.roundtrip.bytes", {"d": "d + spec.base58.checksum(d)"})],
    modular=MOD, fuc=["bits.base58.base58check", "bits.base58.base58check_decode"],
    note="composition of C07.roundtrip.bytes (used as a lemma at d + checksum(d)) with the two Base58Check wrappers",
    witnesses=[{"d": b""}, {"d": b"\x00"}, {"d": b"\x00\x00\xff"}, {"d": b"hello world"}],
))

'''
