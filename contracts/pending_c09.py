"""Not loaded (name starts with pending_): deductive versions that exceeded the generation budget."""
PENDING = r'''
for net in (False, True):
    for dcls, dreq in (("master", ["depth == 0", "fp == bytes(4)", "child == 0"]), ("child", ["1 <= depth < 256"])):
        register(Theorem(
            f"C09.xkey.roundtrip.public.{'testnet' if net else 'mainnet'}.{dcls}", P,
            params={"K": "point", **XK, "testnet": ("enum", [net])},
            requires=["0 <= K[0] < spec.ec.P", "0 <= K[1] < spec.ec.P", "spec.ec.on_curve(K[0], K[1])", "0 <= child < 2**32"] + dreq,
            body=f"{B}.deserialized_extended_key({B}.serialized_extended_key(K, chain, bytes([depth]), fp, child, testnet=testnet))",
            cases=[Case("ok", ensures={"fields": "result == (spec.bip32.VERSIONS[(True, testnet)], bytes([depth]), fp, child.to_bytes(4, 'big'), chain, K)"})],
            uses=[("C14.sec1.roundtrip.compressed", {"x": "K[0]", "y": "K[1]"}),
                  ("C07.roundtrip.check", {"d": "spec.bip32.payload(K, chain, depth, fp, child, testnet)"})],
            modular=MOD58 + [POINT, PUBKEY], fuc=[f"{B}.serialized_extended_key", f"{B}.deserialized_extended_key", f"{B}.ser_p"],
            options={"native_gen": _xk(False, net, dcls == "master"), "nla": False, "feas_ms": 300,
                     "assumptions": ["field lemmas behind C14.sec1.roundtrip.compressed (sqrt_root, sq_eq, no_two_torsion)"]},
            witnesses=[{"K": GPT, "chain": bytes(32), "depth": 0 if dcls == "master" else 3, "fp": bytes(4) if dcls == "master" else b"\xaa" * 4,
                        "child": 0 if dcls == "master" else 2**31, "testnet": net}],
        ))


for i in IDX:
    hard = i >= 2**31
    register(Theorem(
        f"C09.derive.one_step.public.{_pstr(i).replace(chr(39), 'h')}", P, params={"K": "point", **XKP},
        requires=["0 <= K[0] < spec.ec.P", "0 <= K[1] < spec.ec.P", "spec.ec.on_curve(K[0], K[1])"] + PARENT_REQ,
        body=f"{HD}.derive_from_path({'M/' + _pstr(i)!r}, {B}.serialized_extended_key(K, chain, bytes([depth]), fp, child.to_bytes(4, 'big'), testnet=testnet))",
        cases=([Case("hardened", raises=(ValueError,))] if hard else
               [Case("ok", when=f"spec.bip32.ckd_pub_ok(K, chain, {i}) and spec.bip32.ckd_pub(K, chain, {i})[0] is not None",
                     ensures={"child_xpub": f"result == bits.base58.base58check(spec.bip32.child_payload_pub(K, chain, depth, {i}, testnet))"}),
                Case("invalid_child", when="otherwise", raises=(AssertionError, ValueError, TypeError))]),
        uses=[("C14.sec1.roundtrip.compressed", {"x": "K[0]", "y": "K[1]"}),
              ("C07.roundtrip.check", {"d": "spec.bip32.payload(K, chain, depth, fp, child, testnet)"})],
        modular=MOD58 + [SMUL, PADD, PUBKEY, POINT, f"{B}.CKDpub@C09.CKDpub"],
        fuc=[f"{HD}.derive_from_path", f"{B}.serialized_extended_key", f"{B}.deserialized_extended_key"],
        options={**FIX, "native_gen": _parent(False), "assumptions": GROUP},
        witnesses=[{"K": GPT, "chain": bytes(32), "depth": 0, "fp": bytes(4), "child": 0, "testnet": False}],
    ))



'''
