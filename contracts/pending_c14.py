"""Not loaded: spec-level SEC1 round-trip lemmas (compressed form flaky under load)."""
PENDING = r'''
# ---- SEC1 round trip: decoding the encoding of a curve point gives the point back (both forms)
G_ = (0x79BE667EF9DCBBAC55A06295CE870B07029BFCDB2DCE28D959F2815B16F81798, 0x483ADA7726A3C4655DA4FBFC0E1108A8FD17B448A68554199C47D08FFB10D4B8)
for comp in (True, False):
    register(Theorem(
        f"C14.sec1.roundtrip.{'compressed' if comp else 'uncompressed'}", P + ["C09", "C08"], params={"x": "int", "y": "int"},
        requires=["0 <= x < spec.ec.P", "0 <= y < spec.ec.P", "spec.ec.on_curve(x, y)"],
        body=f"spec.ec.sec1_encode(x, y, {comp})",
        cases=[Case("ok", ensures={"decodable": "spec.ec.sec1_ok(result)", "x_back": "spec.ec.sec1_x(result) == x",
                                   "y_back": "spec.ec.sec1_y(result) == y"})],
        options={"lemmas": ["sqrt_root", "sq_eq", "no_two_torsion"], "nla": False,
                 "native_gen": lambda rng: dict(zip("xy", __import__("spec").ec.ec_mul(rng.randrange(1, 2**256), __import__("spec").ec.G))),
                 "assumptions": ["A-prime-p; field lemmas sqrt_root (p = 3 mod 4), sq_eq, no_two_torsion"]},
        witnesses=[{"x": G_[0], "y": G_[1]}],
        note="spec-level lemma (the decoder is the one C14.point is proved against): used by C09's public extended-key round trip",
    ))


'''
