"""pyvc - verification-condition generator for a subset of Python.

Re-reads the real source under $VERIF_REPO/src (default /repo/src) on every run,
symbolically executes the functions named by the sidecar contracts in
/verif/contracts, and discharges the generated obligations with z3 / cvc5
(and Lean for field algebra).  See /verif/DESIGN.md.
"""
