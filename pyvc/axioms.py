"""Axiom instances for the uninterpreted builtins (trusted base, see DESIGN.md 2.4).

No quantified axiom is ever given to a solver.  Instead, for every application of a
builtin symbol that occurs in a query, the relevant ground instances are added
(a fixed, small set per application), to a bounded number of rounds.  Each schema below is a
fact about CPython's int/bytes semantics (or an output-length fact of a hash function) and is
listed in the evidence trusted_base; conformance tests live in pyvc/conformance.py.
"""
import z3

from . import sym
from .sym import IntS, BytesS

TRUSTED = {
    "be/le": "int.from_bytes: 0 <= v < 256**len; inverse of to_bytes; concat law; 1-byte and empty cases",
    "tobe/tole": "int.to_bytes(n): length n; inverse of from_bytes on [0,256**n); bytes are 0..255",
    "ipow": "b**e for e>=0: b**0=1, b**(e+1)=b*b**e, positivity/monotonicity for b>=2",
    "idiv/imod": "a // b and a % b for b > 0: a == b*(a//b) + a%b, 0 <= a%b < b",
    "bitops": "x ^ y, x | y, x & y of non-negative ints below 2**k are non-negative and below 2**k; x ^ 0 == x; ^ commutes",
    "bitlen": "int.bit_length: x=0 -> 0; x>0 -> 2**(bl-1) <= x < 2**bl",
    "hash": "sha256/sha512/ripemd160/hmac-sha512 are uninterpreted; only the digest length is assumed",
    "bjoin": "b''.join: join([])=b'', join(xs+[x])=join(xs)+x, join([x])=x",
    "strip": "bytes.lstrip/rstrip of one byte value: result is the suffix/prefix after removing the maximal run",
    "brev": "b[::-1]: length, involution, element positions",
    "brep": "bytes([c]) * k: length max(k,0), every element c; b == bytes([c])*(len(b)-len(b.lstrip(c))) + b.lstrip(c); (bytes([c])*z + e).lstrip(c) == e when e is empty or e[0] != c",
    "bitfield": "(derived, integer arithmetic) E % 2**(a+w) == E % 2**a + ((E // 2**a) % 2**w) * 2**a",
    "slice-tiling": "(derived, sequence theory) c == c[:o] + c[o:] for 0 <= o <= len(c)",
    "byte-range": "every element of a bytes object is in range(256)",
}


def lit(n):
    return z3.IntVal(n)


def pow_term(base, e):
    """base ** e as a z3 term; literal when e is concrete and small."""
    e = z3.simplify(e)
    if z3.is_int_value(e) and isinstance(base, int):
        ev = e.as_long()
        if 0 <= ev <= 4096:
            return z3.IntVal(base ** ev)
    b = z3.IntVal(base) if isinstance(base, int) else base
    return sym.F_pow(b, e)


def _subterms(t, seen, out, quants=None):
    stack = [t]
    while stack:
        t = stack.pop()
        k = t.get_id()
        if k in seen:
            continue
        seen[k] = t   # keeps t alive (ids are reused after garbage collection)
        if z3.is_app(t):
            out.append(t)
            stack.extend(t.children())
        elif z3.is_quantifier(t) and quants is not None:
            quants.append(t)


def _mentions(f, cs):
    stack = [f]
    seen = set()
    while stack:
        u = stack.pop()
        if u.get_id() in seen:
            continue
        seen.add(u.get_id())
        if any(u.eq(c) for c in cs):
            return True
        if z3.is_app(u):
            stack.extend(u.children())
        elif z3.is_quantifier(u):
            stack.append(u.body())
    return False


def _klen(t):
    """Statically known length of a seq term, or None."""
    t = z3.simplify(z3.Length(t))
    if z3.is_int_value(t):
        return t.as_long()
    return None


class Axioms:
    """Incremental instantiation: feed formulas, get new ground instances."""

    def __init__(self, rounds=3):
        self.seen = {}
        self.rounds = rounds
        self.used = set()
        self.extra_rules = []  # callables(term) -> list of instances (spec unfoldings, lemmas)
        self.pows = {}
        self.no_concat_law = False
        self.own_quants = {}
        self.lstrips = []
        self.bes = []
        self.len_facts = {}    # id -> (Length(x), IntVal(K)) for hypotheses  len(x) == K
        self.breps = []
        self.fuel = 1          # unfolding depth for recursive spec functions (terms of the query itself: depth 1)
        self._round = 0

    def feed(self, formulas):
        """Return the list of new instances implied by the applications in formulas."""
        out = []
        frontier = list(formulas)
        for rnd in range(self.rounds):
            self._round = rnd
            terms = []
            quants = []
            for f in frontier:
                if z3.is_eq(f) and f.num_args() == 2:
                    l_, r_ = f.arg(0), f.arg(1)
                    if z3.is_int_value(l_):
                        l_, r_ = r_, l_
                    if z3.is_int_value(r_) and z3.is_app_of(l_, z3.Z3_OP_SEQ_LENGTH):
                        self.len_facts[l_.get_id()] = (l_, r_)
            for f in frontier:
                _subterms(f, self.seen, terms, quants)
            new = []
            for t in terms:
                new.extend(self._inst(t))
            for q in quants:
                # instances for terms under a binder are emitted under the same binder
                if q.get_id() in self.own_quants:
                    continue      # a quantified instance generated here: its body terms were already handled
                n = q.num_vars()
                cs = [z3.Const(f"{q.var_name(i)}!a{q.get_id()}", q.var_sort(i)) for i in range(n)]
                body = z3.substitute_vars(q.body(), *reversed(cs))
                sub = []
                _subterms(body, {}, sub, [])
                for u in sub:
                    for f in self._inst(u):
                        if _mentions(f, cs):
                            qf = z3.ForAll(cs, f)
                            self.own_quants[qf.get_id()] = qf
                            new.append(qf)
                        else:
                            new.append(f)
            new = [z3.simplify(n) for n in new]
            new = [n for n in new if not z3.is_true(n)]
            if not new:
                break
            out.extend(new)
            frontier = new
        return out

    def _strip_rep(self, ls, rp):
        """x.lstrip(c) == x[z:] when x[:z] is a run of c and x[z] (if any) is not c."""
        x, c = ls.children()
        c2, z = rp.children()
        n = z3.Length(x)
        return [z3.Implies(z3.And(c == c2, z >= 0, z <= n, z3.Extract(x, lit(0), z) == rp,
                                  z3.Or(n == z, x[z] != c)),
                           ls == z3.Extract(x, z, n - z))]

    def _inst(self, t):
        d = t.decl()
        name = d.name()
        k = d.kind()
        out = []
        ch = t.children()
        if k == z3.Z3_OP_UNINTERPRETED and ch:
            if name in ("be", "le"):
                self.used.add("be/le")
                b = ch[0]
                n = z3.Length(b)
                out.append(t >= 0)
                out.append(t < pow_term(256, n))
                inv = sym.F_tobe if name == "be" else sym.F_tole
                out.append(inv(t, n) == b)
                out.append(z3.Implies(n == 0, t == 0))
                out.append(z3.Implies(n == 1, t == b[0]))
                if name == "be":
                    out.append(z3.Implies(n >= 1, z3.And(b[0] * pow_term(256, n - 1) <= t,
                                                         t < (b[0] + 1) * pow_term(256, n - 1))))
                else:
                    out.append(z3.Implies(n >= 1, z3.And(b[n - 1] * pow_term(256, n - 1) <= t,
                                                         t < (b[n - 1] + 1) * pow_term(256, n - 1))))
                # a shorter big-endian string is a smaller number than a longer one without a leading zero byte
                # (derived from the two bounds above and monotonicity of 256**k; given directly to spare the solver
                # the nonlinear detour)
                if name == "be" and len(self.bes) < 12:
                    for (b2, t2) in self.bes:
                        n2 = z3.Length(b2)
                        out.append(z3.Implies(z3.And(n < n2, b2[0] >= 1), t < t2))
                        out.append(z3.Implies(z3.And(n2 < n, b[0] >= 1), t2 < t))
                    self.bes.append((b, t))
                    if z3.is_app_of(b, z3.Z3_OP_SEQ_EXTRACT):
                        c_, o_, l_ = b.children()
                        out.append(z3.Implies(z3.And(o_ >= 0, l_ >= 1, o_ + l_ <= z3.Length(c_)), b[0] == c_[o_]))
                # concat law
                if z3.is_app_of(b, z3.Z3_OP_SEQ_CONCAT) and not self.no_concat_law:
                    parts = b.children()
                    head, rest = parts[0], parts[1:]
                    restt = rest[0] if len(rest) == 1 else z3.Concat(*rest)
                    f = sym.F_be if name == "be" else sym.F_le
                    if name == "be":
                        out.append(t == f(head) * pow_term(256, z3.Length(restt)) + f(restt))
                    else:
                        out.append(t == f(head) + pow_term(256, z3.Length(head)) * f(restt))
                if z3.is_app_of(b, z3.Z3_OP_SEQ_UNIT):
                    out.append(t == b.children()[0])
                # prefix / suffix of a longer value: split law  v(c) = v(c[:k]) (+) v(c[k:])
                if z3.is_app_of(b, z3.Z3_OP_SEQ_EXTRACT):
                    c, o, l = b.children()
                    f = sym.F_be if name == "be" else sym.F_le
                    nc = z3.Length(c)
                    rest = z3.Extract(c, o + l, nc - (o + l))
                    pre = z3.Extract(c, lit(0), o)
                    inb = z3.And(o >= 0, l >= 0, o + l <= nc)
                    if name == "be":
                        # be(c) = be(pre)*256^(nc-o) + be(b)*256^(nc-o-l) + be(rest)
                        out.append(z3.Implies(z3.And(inb, o == 0), f(c) == t * pow_term(256, nc - l) + f(rest)))
                        out.append(z3.Implies(z3.And(inb, o + l == nc), f(c) == f(pre) * pow_term(256, l) + t))
                    else:
                        out.append(z3.Implies(z3.And(inb, o == 0), f(c) == t + pow_term(256, l) * f(rest)))
                        out.append(z3.Implies(z3.And(inb, o + l == nc), f(c) == f(pre) + pow_term(256, o) * t))
            elif name in ("tobe", "tole"):
                self.used.add("tobe/tole")
                x, n = ch
                f = sym.F_be if name == "tobe" else sym.F_le
                ok = z3.And(x >= 0, x < pow_term(256, n), n >= 0)
                out.append(z3.Implies(n >= 0, z3.Length(t) == n))
                out.append(z3.Implies(ok, f(t) == x))
                out.append(z3.Implies(z3.And(ok, n == 1), t == z3.Unit(x)))
                nv = z3.simplify(n)
                if z3.is_int_value(nv) and 2 <= nv.as_long() <= 8:
                    k = nv.as_long()
                    digs = [z3.Unit((x / (256 ** i)) % 256) for i in range(k)]
                    if name == "tobe":
                        digs = list(reversed(digs))
                    out.append(z3.Implies(ok, t == z3.Concat(*digs)))
                # the least significant byte
                if name == "tobe":
                    out.append(z3.Implies(z3.And(ok, n >= 1), t[n - 1] == x % 256))
                else:
                    out.append(z3.Implies(z3.And(ok, n >= 1), t[0] == x % 256))
                # leading / trailing byte facts used by DER and scriptnum minimality
                if name == "tobe":
                    out.append(z3.Implies(z3.And(ok, n >= 1),
                                          z3.And(t[0] * pow_term(256, n - 1) <= x,
                                                 x < (t[0] + 1) * pow_term(256, n - 1),
                                                 t[0] >= 0, t[0] < 256)))
                else:
                    out.append(z3.Implies(z3.And(ok, n >= 1),
                                          z3.And(t[n - 1] * pow_term(256, n - 1) <= x,
                                                 x < (t[n - 1] + 1) * pow_term(256, n - 1),
                                                 t[n - 1] >= 0, t[n - 1] < 256)))
            elif name == "ipow":
                self.used.add("ipow")
                b, e = ch
                out.append(z3.Implies(e == 0, t == 1))
                out.append(z3.Implies(e >= 1, t == b * sym.F_pow(b, e - 1)))
                out.append(z3.Implies(z3.And(b >= 1, e >= 0), t >= 1))
                out.append(z3.Implies(z3.And(b >= 2, e >= 1), t >= b))
                if z3.is_int_value(b) and 2 <= b.as_long() <= 256:
                    bv = b.as_long()
                    for K in (1, 2, 4, 8, 16, 31, 32, 33, 40, 63, 64, 128, 255, 256, 264, 512):
                        out.append(z3.Implies(e >= K, t >= bv ** K))
                        out.append(z3.Implies(z3.And(e >= 0, e <= K), t <= bv ** K))
                    # exact value when the exponent is fixed by length facts of the query (len(x) == K)
                    if self.len_facts and not z3.is_int_value(e):
                        e2 = z3.simplify(z3.substitute(e, *self.len_facts.values()))
                        if z3.is_int_value(e2) and 0 <= e2.as_long() <= 4096:
                            out.append(z3.Implies(e == e2, t == bv ** e2.as_long()))
                # monotonicity against the other powers of the same base seen so far
                key = str(b)
                others = self.pows.setdefault(key, [])
                for (e2, t2) in others:
                    out.append(z3.Implies(z3.And(b >= 1, e >= 0, e2 >= 0, e < e2), b * t <= t2))
                    out.append(z3.Implies(z3.And(b >= 1, e >= 0, e2 >= 0, e2 < e), b * t2 <= t))
                    out.append(z3.Implies(e == e2, t == t2))
                others.append((e, t))
            elif name in ("idiv", "imod"):
                self.used.add("idiv/imod")
                a, b = ch
                q, r = sym.F_idiv(a, b), sym.F_imod(a, b)
                out.append(z3.Implies(b > 0, z3.And(a == b * q + r, r >= 0, r < b)))
                out.append(z3.Implies(z3.And(b > 0, a >= 0), z3.And(q >= 0, q <= a)))
                out.append(z3.Implies(z3.And(b > 0, a >= 0, a < b), z3.And(q == 0, r == a)))
                out.append(z3.Implies(b == 1, z3.And(q == a, r == 0)))
            elif name in ("bitxor", "bitor", "bitand"):
                self.used.add("bitops")
                a, b = ch
                for k in (8, 32, 64, 256):
                    out.append(z3.Implies(z3.And(a >= 0, a < 2 ** k, b >= 0, b < 2 ** k), z3.And(t >= 0, t < 2 ** k)))
                if name == "bitxor":
                    out.append(z3.Implies(b == 0, t == a))
                    out.append(z3.Implies(a == 0, t == b))
                    out.append(t == sym.F_bitxor(b, a))
            elif name == "bitlen":
                self.used.add("bitlen")
                x = ch[0]
                out.append(z3.Implies(x == 0, t == 0))
                out.append(z3.Implies(x > 0, z3.And(t >= 1, pow_term(2, t - 1) <= x, x < pow_term(2, t))))
                # byte-granular consequences (8 | bit positions): 256**m = 2**(8m)
                m = (t + 7) / 8
                out.append(z3.Implies(x > 0, z3.And(pow_term(256, m - 1) <= x, x < pow_term(256, m))))
                out.append(z3.Implies(x > 0, (x >= 128 * pow_term(256, m - 1)) == (t % 8 == 0)))
            elif name in ("sha256", "sha512", "ripemd160", "hmac_sha512"):
                self.used.add("hash")
                n = {"sha256": 32, "sha512": 64, "ripemd160": 20, "hmac_sha512": 64}[name]
                out.append(z3.Length(t) == n)
            elif name == "bjoin":
                self.used.add("bjoin")
                xs = ch[0]
                out.append(z3.Implies(z3.Length(xs) == 0, z3.Length(t) == 0))
                out.append(z3.Implies(z3.Length(xs) == 1, t == xs[0]))
                if z3.is_app_of(xs, z3.Z3_OP_SEQ_CONCAT):
                    parts = xs.children()
                    out.append(t == z3.Concat(*[sym.F_join(p) for p in parts]))
                if z3.is_app_of(xs, z3.Z3_OP_SEQ_UNIT):
                    out.append(t == xs.children()[0])
                if z3.is_app_of(xs, z3.Z3_OP_SEQ_EMPTY):
                    out.append(z3.Length(t) == 0)
            elif name in ("lstrip", "rstrip"):
                self.used.add("strip")
                b, c = ch
                n, m = z3.Length(b), z3.Length(t)
                out.append(m <= n)
                j = z3.Int("j!strip")
                if name == "lstrip":
                    out.append(z3.ForAll([j], z3.Implies(z3.And(j >= 0, j < n - m), b[j] == c)))
                    out.append(z3.ForAll([j], z3.Implies(z3.And(j >= 0, j < m), t[j] == b[n - m + j])))
                    out.append(z3.ForAll([j], z3.Implies(z3.And(j >= n - m, j < n), b[j] == t[j - (n - m)])))
                else:
                    out.append(z3.ForAll([j], z3.Implies(z3.And(j >= m, j < n), b[j] == c)))
                    out.append(z3.ForAll([j], z3.Implies(z3.And(j >= 0, j < m), t[j] == b[j])))
                if name == "lstrip":
                    out.append(t == z3.Extract(b, n - m, m))
                    out.append(z3.Implies(m > 0, t[0] != c))
                    out.append(z3.Implies(z3.And(n > 0, b[0] != c), t == b))
                    out.append(z3.Implies(z3.And(n > 0, b[0] == c), m < n))
                    # value facts: stripping leading zero bytes keeps the big-endian value
                    out.append(z3.Implies(c == 0, sym.F_be(t) == sym.F_be(b)))
                else:
                    out.append(t == z3.Extract(b, lit(0), m))
                    out.append(z3.Implies(m > 0, t[m - 1] != c))
                    out.append(z3.Implies(z3.And(n > 0, b[n - 1] != c), t == b))
                    out.append(z3.Implies(z3.And(n > 0, b[n - 1] == c), m < n))
                if name == "lstrip":
                    self.lstrips.append(t)
                    for rp in self.breps:
                        out.extend(self._strip_rep(t, rp))
                    rep = sym.uf("brep", IntS, IntS, BytesS)(c, n - m)
                    out.append(b == z3.Concat(rep, t))
                    out.append(z3.Length(rep) == n - m)
                    # stripping a run followed by something that does not start with c
                    if z3.is_app_of(b, z3.Z3_OP_SEQ_CONCAT) and len(b.children()) >= 2:
                        h = b.children()[0]
                        if z3.is_app(h) and h.decl().name() == "brep":
                            rest = b.children()[1:]
                            restt = rest[0] if len(rest) == 1 else z3.Concat(*rest)
                            out.append(z3.Implies(z3.And(h.arg(0) == c, z3.Or(z3.Length(restt) == 0, restt[0] != c)),
                                                  t == restt))
            elif name == "brep":
                self.used.add("brep")
                c, k = ch
                self.breps.append(t)
                for ls in self.lstrips:
                    out.extend(self._strip_rep(ls, t))
                out.append(z3.Length(t) == z3.If(k > 0, k, 0))
                j = z3.Int("j!rep")
                out.append(z3.ForAll([j], z3.Implies(z3.And(j >= 0, j < k), t[j] == c)))
                out.append(z3.Implies(k > 0, t[0] == c))
            elif name == "brev":
                self.used.add("brev")
                b = ch[0]
                out.append(z3.Length(t) == z3.Length(b))
                out.append(sym.F_rev(t) == b)
        elif k == z3.Z3_OP_SEQ_EXTRACT and t.sort() == BytesS:
            # a suffix and the matching prefix tile the sequence:  c == c[:o] + c[o:]   (sequence theory fact)
            c_, o_, l_ = ch
            if not z3.is_int_value(o_) and z3.is_true(z3.simplify(o_ + l_ == z3.Length(c_))):
                self.used.add("slice-tiling")
                out.append(z3.Implies(z3.And(o_ >= 0, o_ <= z3.Length(c_)), c_ == z3.Concat(z3.Extract(c_, lit(0), o_), t)))
        elif k == z3.Z3_OP_MOD and len(ch) == 2 and z3.is_int_value(ch[1]) and z3.is_app_of(ch[0], z3.Z3_OP_IDIV):
            # bit field (E div 2**a) mod 2**w: the fields of E tile it.  An identity of integer arithmetic
            # (not an assumption), instantiated to spare the solver the case analysis:
            #     E mod 2**(a+w) == E mod 2**a + ((E div 2**a) mod 2**w) * 2**a
            e_, d_ = ch[0].children()
            m_ = ch[1].as_long()
            if z3.is_int_value(d_) and d_.as_long() > 0 and m_ > 0:
                a_ = d_.as_long()
                if a_ & (a_ - 1) == 0 and m_ & (m_ - 1) == 0:
                    self.used.add("bitfield")
                    out.append(e_ % lit(a_ * m_) == e_ % lit(a_) + t * lit(a_))
        elif k == z3.Z3_OP_SEQ_NTH and t.sort() == IntS:
            # element of a bytes-like sequence: in range when index in range
            # (only emitted for sequences registered as bytes by the engine)
            pass
        if self._round < self.fuel:
            for r in self.extra_rules:
                out.extend(r(t))
        return out
