"""Contract data model (sidecar; nothing in /repo is annotated).

A Theorem is a harness expression over the real functions plus pre/post clauses; a function
contract is the special case body = f(params).  Clauses are Python expressions in source form:
they are symbolically evaluated by the same engine (-> SMT) and eval()'d natively for replay.
"""
from dataclasses import dataclass, field
from typing import Any, Dict, List, Optional, Tuple


@dataclass
class Case:
    name: str
    when: str = "True"
    ensures: Any = field(default_factory=list)   # list[str] or dict[name -> str]
    raises: Optional[Tuple[type, ...]] = None     # None: normal return expected

    def clauses(self):
        if isinstance(self.ensures, dict):
            return list(self.ensures.items())
        return [(f"e{i}", c) for i, c in enumerate(self.ensures)]


@dataclass
class Loop:
    invariant: List[str]
    decreases: Optional[str] = None
    types: Dict[str, Any] = field(default_factory=dict)   # havoc types for loop-carried variables
    lets: Dict[str, str] = field(default_factory=dict)


@dataclass
class Theorem:
    name: str                                  # e.g. "C05.compact_size.roundtrip"
    props: List[str]
    params: Dict[str, Any]
    body: str                                  # harness expression over bits.* and params
    cases: List[Case]
    requires: List[str] = field(default_factory=list)
    lets: Dict[str, str] = field(default_factory=dict)      # ghost definitions (evaluated after requires)
    loops: Dict[Tuple[str, int], Loop] = field(default_factory=dict)  # (function qualname, loop ordinal) -> Loop
    fuc: List[str] = field(default_factory=list)            # functions under contract (qualnames) exercised
    witnesses: List[Dict[str, Any]] = field(default_factory=list)   # concrete inputs satisfying requires
    options: Dict[str, Any] = field(default_factory=dict)
    modular: List[str] = field(default_factory=list)        # callees replaced by their contracts
    native_ok: List[str] = field(default_factory=list)
    note: str = ""
    uses: List[Any] = field(default_factory=list)   # [(theorem name, {param: expr})]: proved theorems used as lemmas


def fn_contract(name, props, fn, params, cases, args=None, **kw):
    """Contract on one real function: body is the call itself."""
    a = args if args is not None else ", ".join(f"{k}={k}" for k in params.keys())
    opts = kw.pop("options", {})
    opts.setdefault("contract_of", fn)
    if "returns" in kw:
        opts["returns"] = kw.pop("returns")
    t = Theorem(name=name, props=props, params=params, body=f"{fn}({a})", cases=cases,
                fuc=[fn] + kw.pop("fuc", []), options=opts, **kw)
    loops = dict(t.loops)
    LOOPS.update(loops)
    return t


LOOPS: Dict[Tuple[str, int], Loop] = {}


def forall(f, lo, hi):
    """forall i in [lo, hi): f(i).  Natively a bounded all(); symbolically a quantified formula."""
    return all(f(i) for i in range(lo, hi))


def implies(a, b):
    return (not a) or b


REGISTRY: List[Theorem] = []


def register(*ts):
    for t in ts:
        REGISTRY.append(t)
    return ts[0] if len(ts) == 1 else ts
