"""./check <PROPERTY> --tier quick|thorough : run every theorem of a property, write evidence, exit code."""
import argparse
import sys as _sys
_sys.set_int_max_str_digits(0)
import ast
import glob
import importlib
import json
import multiprocessing as mp
import os
import random
import re
import shutil
import sys
import tempfile
import time
import traceback

VERIF = os.path.dirname(os.path.dirname(os.path.abspath(__file__)))

EXIT_OK, EXIT_VIOLATION, EXIT_UNDECIDED, EXIT_ERROR = 0, 1, 2, 3

GLOBAL_ASSUMPTIONS = {
    "A-smt": "soundness of 'unsat' answers of z3 4.8.12 / z3 5.1.0 / cvc5 1.0.3",
    "A-enc": "pyvc's encoding of the Python subset into SMT (mitigated: native conformance runs of every witness, mutation self-test)",
    "A-builtin": "axiom instances for CPython builtins listed under trusted_base (mitigated: pyvc/conformance.py)",
    "A-hash": "hash functions are uninterpreted: only output lengths are assumed, nothing about digest values",
}


def load_contracts():
    sys.path.insert(0, VERIF)
    from pyvc.contracts import REGISTRY
    if not REGISTRY:
        for f in sorted(glob.glob(os.path.join(VERIF, "contracts", "c*.py"))):
            importlib.import_module("contracts." + os.path.basename(f)[:-3])
    return REGISTRY


def group_of(name_full):
    return name_full.split("#")[0]


# ------------------------------------------------------------------------------------ worker

_TREE_HASH = None


def tree_hash():
    """Hash of everything a theorem's verdict depends on: the repository sources under verification, the engine,
    the contracts, the specs and the known-findings file."""
    global _TREE_HASH
    if _TREE_HASH is None:
        import hashlib
        h = hashlib.sha256()
        roots = [os.path.join(os.environ.get("VERIF_REPO", "/repo"), "src"), os.path.join(VERIF, "pyvc"),
                 os.path.join(VERIF, "contracts"), os.path.join(VERIF, "spec")]
        for root in roots:
            for dp, dn, fn in sorted(os.walk(root)):
                dn.sort()
                for f in sorted(fn):
                    if f.endswith((".py", ".txt", ".json", ".toml")):
                        fp = os.path.join(dp, f)
                        h.update(os.path.relpath(fp, root).encode())
                        with open(fp, "rb") as fh:
                            h.update(fh.read())
        for f in ("known_findings.json",):
            fp = os.path.join(VERIF, f)
            if os.path.exists(fp):
                h.update(open(fp, "rb").read())
        _TREE_HASH = h.hexdigest()
    return _TREE_HASH


def cache_path(tname, tier, seed):
    import hashlib
    d = os.path.join(VERIF, ".cache")
    k = hashlib.sha256(f"{tname}|{tier}|{seed}|{tree_hash()}".encode()).hexdigest()[:32]
    return os.path.join(d, k + ".json")


def work_theorem(args):
    """Runs in a forked worker; results of a theorem are reused when nothing it depends on has changed (same repository
    sources, engine, contracts, specs, tier and seed - see tree_hash) so that a dependency shared by several
    properties is verified once per tree, not once per property."""
    tname, tier, outdir, kf_classes, seed = args
    cp = cache_path(tname, tier, seed)
    if not os.environ.get("VERIF_NO_CACHE") and not kf_classes and os.path.exists(cp):
        try:
            with open(cp) as fh:
                out = json.load(fh)
            out["cached"] = True
            return out
        except Exception:  # noqa
            pass
    out = _work_theorem(args)
    if not kf_classes and not out.get("error"):
        try:
            os.makedirs(os.path.dirname(cp), exist_ok=True)
            tmp = cp + f".{os.getpid()}.tmp"
            with open(tmp, "w") as fh:
                json.dump(out, fh, default=str)
            os.replace(tmp, cp)
        except Exception:  # noqa
            pass
    return out


def _work_theorem(args):
    tname, tier, outdir, kf_classes, seed = args
    from pyvc import verify, solve, replay, specs
    from pyvc.contracts import REGISTRY
    thm = [t for t in REGISTRY if t.name == tname][0]
    t0 = time.time()
    out = {"theorem": tname, "obligations": [], "unsupported": None, "paths": 0, "notes": {}, "error": None}
    if thm.options.get("bounded_only"):
        # bounded stand-in: runtime contract check of the real code over a stated finite input set; never 'proved'
        n = 0
        distinct, checked, samples = set(), 0, []
        import itertools
        more = thm.options.get("thorough_inputs")
        stream = thm.options["bounded_inputs"]()
        if tier == "thorough" and more is not None:
            stream = itertools.chain(stream, more(seed))     # thorough tier: a larger, seed-dependent input set
        for inp in stream:
            r = replay.native_check(thm, inp)
            n += 1
            h_ = hash(repr(sorted(inp.items(), key=lambda kv: kv[0])))
            if r["status"] != "pre-false" and h_ not in distinct:
                distinct.add(h_)
                if len(samples) < 3:
                    samples.append({"input": replay._short(inp, 200), "status": r["status"]})
            checked += r["status"] != "pre-false"
            if r["status"] == "violation":
                out["native_violation"] = {"inputs_repr": repr(inp), "result": r}
                break
        out["bounded"] = {"cases": n, "bound": thm.options.get("bound", "") + (" + thorough tier: " + thm.options.get("thorough_bound", "") if tier == "thorough" and more is not None else ""), "checked": checked,
                          "distinct": len(distinct), "samples": samples}
        out["wall_s"] = time.time() - t0
        return out
    try:
        if kf_classes:
            import copy
            thm = copy.copy(thm)
            thm.requires = list(thm.requires) + [f"not ({c})" for c in kf_classes]
        res = verify.generate(thm)
        out["paths"] = res.paths
        out["unsupported"] = res.unsupported
        out["frame_violation"] = res.frame_violation
        if res.unsupported and not kf_classes:
            # the code left the verifier's subset: runtime contract checking of the real code is the bounded stand-in
            ns = native_search(thm, 300 if tier == "quick" else 20000, seed)
            if ns["found"]:
                out["native_violation"] = {"inputs_repr": repr(ns["inputs"]), "result": ns["result"]}
            out["native_tried"] = ns.get("tried")
        out["gen_s"] = res.gen_s
        out["notes"] = {"inlined": sorted(res.notes["inlined"]), "native": sorted(res.notes["native"]),
                        "unrolled": res.notes["unrolled"],
                        "assumed_contracts": sorted(res.notes["assumed_contracts"])}
        cli_timeout = 40 if tier == "quick" else 240
        quick_ms = 10000 if tier == "quick" else 40000
        rules = specs.unfold_rules(thm)
        pending = [o for o in res.obligs if not getattr(o, "inline", None)]
        native_hit = None
        if pending and not kf_classes:
            # runtime contract check of the real code first: a concrete failing input settles the theorem
            ns = native_search(thm, 200 if tier == "quick" else 5000, seed)
            if ns["found"]:
                native_hit = ns
                out["native_violation"] = {"inputs_repr": repr(ns["inputs"]), "result": ns["result"]}
        cli_budget = 400.0 if tier == "quick" else 3000.0
        for o in res.obligs:
            if native_hit is not None and not getattr(o, "inline", None):
                out["obligations"].append({"name": o.name_full, "group": group_of(o.name_full), "status": "skipped",
                                           "backend": "none (theorem already refuted by a native failing input)",
                                           "secs": 0.0, "kind": o.meta.get("kind"), "clause": o.meta.get("clause"),
                                           "case": o.meta.get("case"), "got": o.meta.get("got"), "want": o.meta.get("want")})
                continue
            if cli_budget <= 0 and not getattr(o, "inline", None):
                out["obligations"].append({"name": o.name_full, "group": group_of(o.name_full), "status": "unknown",
                                           "backend": "none (per-theorem solver budget exhausted)", "secs": 0.0,
                                           "kind": o.meta.get("kind"), "clause": o.meta.get("clause"),
                                           "case": o.meta.get("case"), "got": o.meta.get("got"), "want": o.meta.get("want")})
                continue
            st = solve.discharge(o, quick_ms=quick_ms, cli_timeout=cli_timeout,
                                 outdir=os.path.join(outdir, "smt2"), extra_rules=rules,
                                 rounds=thm.options.get("axiom_rounds", 3), fuel=thm.options.get("fuel", 1),
                                 nla=thm.options.get("nla", True))
            rec = {"name": o.name_full, "group": group_of(o.name_full), "status": st.status,
                   "backend": st.backend, "secs": round(st.secs, 4), "kind": o.meta.get("kind"),
                   "clause": o.meta.get("clause"), "got": o.meta.get("got"), "want": o.meta.get("want"),
                   "case": o.meta.get("case"), "smt2": st.smt2,
                   "axioms": (st.detail or {}).get("axioms") if isinstance(st.detail, dict) else None}
            if st.status in ("refuted", "unknown", "error"):
                rec["solver_detail"] = json.loads(json.dumps(st.detail, default=str)) if st.detail else None
            if st.model is not None:
                rec["model_repr"] = repr(st.model)
            if not getattr(o, "inline", None):
                cli_budget -= st.secs
            out["obligations"].append(rec)
    except Exception as ex:  # noqa
        out["error"] = f"{type(ex).__name__}: {ex}\n{traceback.format_exc()[-1500:]}"
    out["wall_s"] = time.time() - t0
    return out


# ------------------------------------------------------------------------------------ native helpers

def rand_value(ty, rng):
    if isinstance(ty, (tuple, list)) and ty and ty[0] == "enum":
        return rng.choice(ty[1])
    if isinstance(ty, str) and ty.startswith("optional:"):
        return None if rng.random() < 0.3 else rand_value(ty[len("optional:"):], rng)
    if ty in ("int", "nat"):
        k = rng.choice([0, 1, 2, 8, 16, 32, 64, 128, 255, 256, 257])
        base = rng.choice([0, 1, 2 ** k, 2 ** k - 1, 2 ** k + 1, rng.getrandbits(max(k, 1)),
                           252, 253, 0xFFFF, 0x10000, 2 ** 32 - 1, 2 ** 32, 2 ** 64 - 1, 2 ** 64])
        if ty == "int" and rng.random() < 0.1:
            base = -base
        return base
    if ty == "bool":
        return rng.random() < 0.5
    if ty == "str":
        pools = ["abc xyz", "TREZOR", "\u00e9\u0041\u030a\ufb01\u2126\u1e9b\u0323", "\u3042\u30ac\uff76\u3099 \u3000", "\U0001f511\u00df"]
        n = rng.choice([0, 1, 2, 5, 12])
        pool = rng.choice(pools)
        return "".join(rng.choice(pool) for _ in range(n))
    if ty == "bytes":
        n = rng.choice([0, 1, 2, 3, 4, 5, 8, 20, 32, 33, 36, 64, 65, 75, 76, 80, 255, 256, 300])
        return bytes(rng.getrandbits(8) for _ in range(n)) if rng.random() < 0.8 else bytes([rng.choice([0, 0xff])]) * n
    if isinstance(ty, str) and ty.startswith("bytes:"):
        n = int(ty.split(":")[1])
        return bytes(rng.getrandbits(8) for _ in range(n)) if rng.random() < 0.8 else bytes([rng.choice([0, 0xff])]) * n
    if isinstance(ty, str) and ty.startswith("list:"):
        parts = ty.split(":")
        n = rng.choice([0, 1, 1, 2, 3, 4, 5, 6, 7, 8, 9, 17])
        if parts[1] == "int":
            return [rng.getrandbits(5) for _ in range(n)]
        et = "bytes" if len(parts) < 3 else f"bytes:{parts[2]}"
        return [rand_value(et, rng) for _ in range(n)]
    if ty == "point":
        return (rng.getrandbits(256), rng.getrandbits(256))
    if isinstance(ty, (tuple, list)) and ty and ty[0] == "tuple":
        return tuple(rand_value(t, rng) for t in ty[1])
    if isinstance(ty, (tuple, list)) and ty and ty[0] == "listn":
        return [rand_value(ty[2], rng) for _ in range(ty[1])]
    if isinstance(ty, (tuple, list)) and ty and ty[0] == "hex":
        return rand_value(ty[1], rng).hex()
    raise ValueError(f"no generator for {ty!r}")


def native_search(thm, n, seed):
    """Runtime contract checking of the real code on witnesses + random inputs (bounded; never a proof)."""
    from pyvc import replay
    rng = random.Random(seed)
    tried = ok = pre_false = 0
    for w in thm.witnesses:
        r = replay.native_check(thm, w)
        tried += 1
        if r["status"] == "violation":
            return {"found": True, "inputs": w, "result": r, "tried": tried}
        ok += r["status"] == "ok"
        pre_false += r["status"] == "pre-false"
    gen = thm.options.get("native_gen")
    for _ in range(n):
        try:
            inp = gen(rng) if gen else {k: rand_value(t, rng) for k, t in thm.params.items()}
        except ValueError:
            break
        r = replay.native_check(thm, inp)
        tried += 1
        if r["status"] == "violation":
            return {"found": True, "inputs": inp, "result": r, "tried": tried}
        ok += r["status"] == "ok"
        pre_false += r["status"] == "pre-false"
    return {"found": False, "tried": tried, "ok": ok, "pre_false": pre_false}


def load_known(prop):
    p = os.path.join(VERIF, "known_findings.json")
    if not os.path.exists(p):
        return []
    with open(p) as fh:
        data = json.load(fh)
    return [f for f in data.get("findings", []) if f.get("property") == prop]


# ------------------------------------------------------------------------------------ main

def run_property(prop, tier, seed, only=None, keep=False, jobs=None, replays_dir=None, quiet=False):
    t_start = time.time()
    reg = load_contracts()
    from pyvc import verify, replay
    thms = [t for t in reg if prop in t.props and (only is None or any(re.search(o, t.name) for o in only))]
    # a run restricted with --only is a partial record: it never overwrites the property's evidence file
    evidence_path = os.path.join(os.environ.get("VERIF_EVIDENCE_DIR") or os.path.join(VERIF, "evidence"),
                                 f"{prop}.json" if only is None else f"{prop}.only.json")
    replays_dir = replays_dir or os.path.join(os.environ.get("VERIF_REPLAYS_DIR") or os.path.join(VERIF, "replays"), prop)
    if os.path.isdir(replays_dir):
        shutil.rmtree(replays_dir)
    lines = []

    def say(s):
        lines.append(s)
        if not quiet:
            print(s, flush=True)

    if not thms:
        say(f"ERROR property={prop}: no theorem registered")
        return EXIT_ERROR
    known = load_known(prop)
    outdir = tempfile.mkdtemp(prefix=f"pyvc_{prop}_", dir=os.environ.get("TMPDIR", "/var/tmp"))
    # import the repo + spec once in the parent so that forked workers share them
    verify.harness_globals()
    jobs = jobs or min(16, len(thms), os.cpu_count() or 4)
    tasks = []
    for t in thms:
        kfc = [k["class"] for k in known if k.get("theorem") == t.name and k.get("class")]
        tasks.append((t.name, tier, outdir, kfc, seed))
    ctx = mp.get_context("fork")
    # largest theorems first
    with ctx.Pool(jobs) as pool:
        results = pool.map(work_theorem, tasks, chunksize=1)

    violations = []
    undecided = []
    errors = []
    bounded = []
    bpath = os.path.join(VERIF, "baseline_obligations.json")
    baseline = set(json.load(open(bpath)).get(prop, [])) if os.path.exists(bpath) else set()
    n_obl = n_dis = 0
    by_backend = {}
    slowest = 0.0
    groups = {}
    fuc = {}
    unrolled = {}
    inlined = set()
    natives = set()
    trusted = set()
    samples = []
    known_hit = []
    r = verify.repo()
    for t, res in zip(thms, results):
        if res["error"]:
            errors.append(f"{t.name}: {res['error']}")
            continue
        if res.get("bounded"):
            bounded.append({"theorem": t.name, "tool": "runtime contract check of the real code (native)",
                            "bound": res["bounded"]["bound"], "cases_run": res["bounded"]["cases"],
                            "clause": [c for case in t.cases for _, c in case.clauses()],
                            "violated": bool(res.get("native_violation"))})
            if res.get("native_violation"):
                nv = res["native_violation"]
                cl = nv["result"]
                gname = f"{t.name}.{cl.get('case')}.{cl.get('clause')}"
                violations.append({"property": prop, "theorem": t.name, "obligation": gname, "group": gname,
                                   "status": "native", "inputs_repr": nv["inputs_repr"],
                                   "inputs": replay.jsonable(ast.literal_eval(nv["inputs_repr"])), "native": cl,
                                   "input_source": "bounded stand-in (runtime contract check of the real code)",
                                   "body": t.body, "requires": t.requires})
            continue
        if res.get("frame_violation") and f"{t.name}.frame" in baseline:
            violations.append({"property": prop, "theorem": t.name, "obligation": f"{t.name}.frame", "group": f"{t.name}.frame",
                               "status": "refuted", "clause": "modifies nothing that outlives the call",
                               "solver": "pyvc frame analysis", "solver_detail": res["frame_violation"],
                               "no_failing_input_found": True, "body": t.body, "requires": t.requires,
                               "got": res["frame_violation"], "want": "no assignment into module-level objects"})
            continue
        if res["unsupported"]:
            if res.get("native_violation"):
                nv = res["native_violation"]
                cl = nv["result"]
                gname = f"{t.name}.{cl.get('case')}.{cl.get('clause')}"
                violations.append({"property": prop, "theorem": t.name, "obligation": gname, "group": gname,
                                   "status": "native", "inputs_repr": nv["inputs_repr"],
                                   "inputs": replay.jsonable(ast.literal_eval(nv["inputs_repr"])), "native": cl,
                                   "input_source": "runtime contract check of the real code (the code left the verifier's subset: "
                                                   + res["unsupported"] + ")",
                                   "body": t.body, "requires": t.requires})
            else:
                undecided.append({"theorem": t.name, "why": "unsupported: " + res["unsupported"]})
            continue
        if not res["obligations"]:
            errors.append(f"{t.name}: zero obligations generated")
            continue
        for q in t.fuc:
            try:
                f = r.resolve(q)
                fuc[q] = dict(zip(("file", "line_from", "line_to", "sha256"), r.span(f)))
            except Exception as ex:  # noqa
                errors.append(f"{t.name}: unbound contract: {q} ({ex})")
        if res.get("native_violation"):
            nv = res["native_violation"]
            cl = nv["result"]
            gname = f"{t.name}.{cl.get('case')}.{cl.get('clause')}"
            violations.append({"property": prop, "theorem": t.name, "obligation": gname, "group": gname,
                               "status": "native", "inputs_repr": nv["inputs_repr"],
                               "inputs": replay.jsonable(ast.literal_eval(nv["inputs_repr"])), "native": cl,
                               "input_source": "runtime contract check of the real code (native search)",
                               "body": t.body, "requires": t.requires})
        inlined |= set(res["notes"].get("inlined", []))
        natives |= set(res["notes"].get("native", []))
        unrolled.update(res["notes"].get("unrolled", {}))
        for o in res["obligations"]:
            n_obl += 1
            g = groups.setdefault(o["group"], {"n": 0, "discharged": 0})
            g["n"] += 1
            b = by_backend.setdefault(o["backend"], {"n": 0, "secs": 0.0})
            b["n"] += 1
            b["secs"] += o["secs"]
            slowest = max(slowest, o["secs"])
            for a in o.get("axioms") or []:
                trusted.add(a)
            if o["status"] == "discharged":
                n_dis += 1
                g["discharged"] += 1
                if len(samples) < 6 and o.get("clause") and o["backend"] != "simplifier":
                    samples.append({"obligation": o["name"], "goal": o["clause"], "backend": o["backend"]})
                continue
            if o["status"] == "error":
                errors.append(f"{o['name']}: solver disagreement {o.get('solver_detail')}")
                continue
            if o["status"] == "skipped":
                continue
            # refuted or unknown: replay / native search on the real code
            inputs = None
            nat = None
            if o.get("model_repr"):
                try:
                    inputs = ast.literal_eval(o["model_repr"])
                except Exception:  # noqa
                    inputs = None
            if inputs is not None and not any(isinstance(v, str) and v.startswith("<unconvertible") for v in inputs.values()):
                nat = replay.native_check(t, inputs)
            found = None
            if nat and nat["status"] == "violation":
                found = {"inputs": inputs, "result": nat, "source": "solver model"}
            else:
                ns = native_search(t, 300 if tier == "quick" else 20000, seed)
                if ns["found"]:
                    found = {"inputs": ns["inputs"], "result": ns["result"], "source": "native search"}
            rec = {"property": prop, "theorem": t.name, "obligation": o["name"], "group": o["group"],
                   "status": o["status"], "clause": o.get("clause"), "got": o.get("got"), "want": o.get("want"),
                   "solver": o["backend"], "solver_detail": o.get("solver_detail"), "smt2": o.get("smt2"),
                   "model_inputs_repr": o.get("model_repr"), "body": t.body, "requires": t.requires}
            if found:
                rec["inputs_repr"] = repr(found["inputs"])
                rec["inputs"] = replay.jsonable(found["inputs"])
                rec["native"] = found["result"]
                rec["input_source"] = found["source"]
                violations.append(rec)
            elif o["status"] == "refuted" and o["group"] in baseline:
                # the verifier refutes an obligation that is discharged on the pinned tree (baseline list)
                rec["native"] = nat
                rec["no_failing_input_found"] = True
                violations.append(rec)
            elif o["status"] == "refuted":
                undecided.append({"theorem": t.name, "obligation": o["name"],
                                  "why": "solver answers sat but no failing input replays and the obligation is not in "
                                         "baseline_obligations.json (never discharged on the pinned tree): not provable from the contracts/axioms given",
                                  "smt2": o.get("smt2")})
            else:
                undecided.append({"theorem": t.name, "obligation": o["name"], "why": "all back ends unknown/timeout",
                                  "smt2": o.get("smt2")})

    # native conformance of every witness (runtime contract check of the real code; also guards vacuity)
    wit_run = wit_ok = 0
    for t in thms:
        kfc = [k for k in known if k.get("theorem") == t.name]
        for w in t.witnesses:
            rr = replay.native_check(t, w)
            wit_run += 1
            if rr["status"] == "ok":
                wit_ok += 1
            elif rr["status"] == "violation":
                if any(_in_class(k, w) for k in kfc):
                    continue
                if not any(v["theorem"] == t.name and v.get("inputs_repr") == repr(w) for v in violations):
                    violations.append({"property": prop, "theorem": t.name, "obligation": t.name + ".witness",
                                       "group": t.name + ".witness", "status": "native", "inputs_repr": repr(w),
                                       "inputs": replay.jsonable(w), "native": rr, "input_source": "contract witness",
                                       "body": t.body, "requires": t.requires})
    # known findings: confirm each still fails natively, print KNOWN-FINDING
    for k in known:
        t = next((x for x in thms if x.name == k.get("theorem")), None)
        if t is None:
            continue
        w = replay.unjson(k["witness"])
        rr = replay.native_check(t, w)
        if rr["status"] == "violation":
            known_hit.append(k)
            say(f"KNOWN-FINDING: property={prop} {k['what']}")

    # de-duplicate violations per (theorem, group): one replay file each
    os.makedirs(replays_dir, exist_ok=True)
    seen = set()
    vio_lines = []
    for v in violations:
        key = (v["theorem"], v["group"], v.get("inputs_repr"))
        gkey = (v["theorem"], v["group"])
        if gkey in seen:
            continue
        seen.add(gkey)
        fn = os.path.join(replays_dir, re.sub(r"[^A-Za-z0-9_.-]", "_", v["group"]) + ".json")
        if v.get("smt2") and os.path.exists(v["smt2"]):
            keepdir = os.path.join(replays_dir, "smt2")
            os.makedirs(keepdir, exist_ok=True)
            dst = os.path.join(keepdir, os.path.basename(v["smt2"]))
            shutil.copy(v["smt2"], dst)
            v["smt2"] = os.path.relpath(dst, VERIF)
        with open(fn, "w") as fh:
            json.dump(v, fh, indent=1, default=str)
        rel = os.path.relpath(fn, VERIF)
        tail = " no-failing-input-found" if v.get("no_failing_input_found") else ""
        what = v.get("native") or {}
        desc = f"{v['group']}: " + (f"{what.get('observed', '')} (required: {what.get('required') or what.get('text') or v.get('clause')})"
                                     if what else f"{v.get('got')} but contract wants {v.get('want') or v.get('clause')}")
        say(f"  violated obligation {desc[:400]}")
        if v.get("inputs_repr"):
            say(f"  failing input ({v.get('input_source')}): {v['inputs_repr'][:400]}")
        vio_lines.append(f"VIOLATION property={prop} replay={rel}{tail}")
    for u in undecided:
        say(f"UNDECIDED property={prop} {u.get('obligation') or u['theorem']}: {u['why']}")
    for e in errors:
        say(f"CHECKER-ERROR property={prop} {e}")

    wall = time.time() - t_start
    confirmed = any(v.get("inputs_repr") for v in violations)
    if confirmed:
        code = EXIT_VIOLATION      # a failing input replayed on the real code stands on its own
    elif errors:
        code = EXIT_ERROR
    elif vio_lines:
        code = EXIT_VIOLATION
    elif undecided:
        code = EXIT_UNDECIDED
    else:
        code = EXIT_OK
    trusted_base = sorted(f"builtin axioms: {a}" for a in trusted) + \
        ["pyvc engine (AST -> SMT encoding)", "z3 4.8.12 / z3 5.1.0 / cvc5 1.0.3"]
    from pyvc.axioms import TRUSTED
    ev = {
        "property_id": prop, "tier": tier, "seed": seed,
        # a property decided only by bounded stand-ins is exploration, never proof
        "level": "proof" if any(not t.options.get("bounded_only") for t in thms) else "exploration",
        "coverage": {
            "obligations": n_obl, "discharged": n_dis,
            "checker_cmd": f"./check {prop} --tier {tier}",
            "trusted_base": trusted_base,
            "theorems": [{"name": t.name, "body": t.body, "requires": t.requires, "paths": res.get("paths"),
                          "obligations": len(res.get("obligations", [])), "gen_s": round(res.get("gen_s", 0), 2),
                          "unsupported": res.get("unsupported"), "note": t.note,
                          "reused_result_of_identical_tree": bool(res.get("cached"))}
                         for t, res in zip(thms, results)],
            "obligation_groups": groups,
            "functions_under_contract": fuc,
            "by_backend": {k: {"n": v["n"], "secs": round(v["secs"], 3)} for k, v in by_backend.items()},
            "slowest_query_s": round(slowest, 3),
            "unrolled_loops": unrolled,
            "inlined_callees": sorted(inlined - set(fuc)),
            "natively_evaluated": sorted(natives),
            "builtin_axioms_used": {a: TRUSTED.get(a, "") for a in sorted(trusted)},
            "theorems_reused_from_cache": sum(1 for res in results if res.get("cached")),
            "cache_rule": "a theorem's result is reused only when the sha256 over $VERIF_REPO/src, pyvc/, contracts/, spec/, known_findings.json, tier and seed is identical (pyvc.driver.tree_hash); VERIF_NO_CACHE=1 disables reuse",
            "vacuity": {"witnesses_run_natively": wit_run, "witnesses_ok": wit_ok,
                        "theorems_with_zero_obligations": 0 if not errors else len([e for e in errors if "zero obligations" in e])},
            "samples": samples or [{"obligation": g} for g in list(groups)[:3]]
                       or [x for res in results if res.get("bounded") for x in res["bounded"].get("samples", [])][:5],
            "undecided": undecided,
            "bounded_standins": bounded,
            # exploration-style keys (the bounded stand-ins): contract evaluations on the real code
            "evaluations": max(1, sum(res["bounded"].get("checked", res["bounded"]["cases"]) for res in results if res.get("bounded"))) if any(res.get("bounded") for res in results) else 0,
            "distinct_nontrivial": sum(res["bounded"].get("distinct", 0) for res in results if res.get("bounded")),
            "rule": "an evaluation = the real function run natively on one input of the stated finite set with its contract (requires / cases / ensures) checked; "
                    "counted as non-trivial when the precondition held; distinct = distinct inputs",
            "known_findings": [k["what"] for k in known_hit],
            "exit_code": code,
        },
        "assumptions": [f"{k}: {v}" for k, v in GLOBAL_ASSUMPTIONS.items()] +
                       sorted({a for t in thms for a in t.options.get("assumptions", [])}),
        "wall_s": round(wall, 2),
        "violations": len(vio_lines),
    }
    os.makedirs(os.path.dirname(evidence_path), exist_ok=True)
    with open(evidence_path, "w") as fh:
        json.dump(ev, fh, indent=1, default=str)
    say(f"{prop}: {n_dis}/{n_obl} obligations discharged over {len(thms)} theorems, "
        f"{len(vio_lines)} violation(s), {len(undecided)} undecided, {len(errors)} error(s), {wall:.1f}s")
    for ln in vio_lines:
        say(ln)
    missing = sorted(baseline - set(groups)) if only is None else []
    # A group of the baseline that is absent now: if its theorem still generated obligations on this tree the group's
    # paths were closed by branch pruning (an infeasible branch is not explored, so no obligation is emitted for it;
    # whether a feasibility query finishes inside its short budget can differ between runs).  Only a theorem that
    # produced nothing at all is vacuous.
    live = [t.name for t in thms if any(g == t.name or g.startswith(t.name + ".") for g in groups)]

    def _thm_of(g):
        c = [n for n in live if g == n or g.startswith(n + ".")]
        return max(c, key=len) if c else None
    pruned = [g for g in missing if _thm_of(g)]
    missing = [g for g in missing if not _thm_of(g)]
    for g in pruned[:10]:
        say(f"note: obligation group {g} not emitted on this run (its paths were pruned as infeasible)")
    if missing and code == EXIT_OK:
        for g in missing[:10]:
            say(f"UNDECIDED property={prop} obligation group {g} of baseline_obligations.json was not generated on this tree")
        code = EXIT_UNDECIDED
    if os.environ.get("VERIF_UPDATE_BASELINE") and only is None:
        data = json.load(open(bpath)) if os.path.exists(bpath) else {}
        data[prop] = sorted(g for g, v in groups.items() if v["n"] == v["discharged"])
        json.dump(data, open(bpath, "w"), indent=0, sort_keys=True)
    if not keep:
        shutil.rmtree(outdir, ignore_errors=True)
    if not os.listdir(replays_dir):
        os.rmdir(replays_dir)
    return code


def _in_class(k, inputs):
    try:
        from pyvc import verify
        env = dict(verify.harness_globals())
        env.update(inputs)
        return bool(eval(k["class"], env))
    except Exception:  # noqa
        return False


def do_replay(path):
    from pyvc import replay
    reg = load_contracts()
    with open(path) as fh:
        v = json.load(fh)
    t = next(x for x in reg if x.name == v["theorem"])
    if not v.get("inputs_repr"):
        print(f"replay file carries no input (obligation {v['obligation']}; solver output attached)")
        return EXIT_UNDECIDED
    inputs = ast.literal_eval(v["inputs_repr"])
    r = replay.native_check(t, inputs)
    print(json.dumps(r, indent=1, default=str))
    if r["status"] == "violation":
        print(f"VIOLATION property={v['property']} replay={path}")
        return EXIT_VIOLATION
    return EXIT_OK


def main(argv=None):
    ap = argparse.ArgumentParser()
    ap.add_argument("property")
    ap.add_argument("--tier", default=os.environ.get("VERIF_TIER", "quick"), choices=["quick", "thorough"])
    ap.add_argument("--only", action="append")
    ap.add_argument("--keep", action="store_true")
    ap.add_argument("--jobs", type=int)
    ap.add_argument("--replay")
    args = ap.parse_args(argv)
    seed = int(os.environ.get("VERIF_SEED", "0") or 0)
    if args.replay:
        return do_replay(args.replay)
    code = run_property(args.property, args.tier, seed, args.only, args.keep, args.jobs)
    if args.tier == "thorough":
        from pyvc import thorough
        code = thorough.extend(args.property, seed, code)
    return code


if __name__ == "__main__":
    sys.exit(main())
