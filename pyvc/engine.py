"""Forward symbolic executor for the Python subset used by jtraub91/bits.

Path exploration is by re-execution with a recorded decision list: every run of the
interpreter follows the given decision prefix and, at the first undecided branch, takes
one side and queues the other.  Each path ends in return / raise / stop (cut point).
"""
import ast
import builtins
import hashlib
import hmac
import inspect
import itertools
import os
import sys
import types

import z3

from . import sym
from .sym import (VInt, VBool, VBytes, VSeq, VHex, VOpaque, Unsupported, Chunk,
                  zi, zb, mk_int, mk_bool, is_sym, to_vbytes, norm_bytes, bytes_concat,
                  bytes_len, chunk_slice, IntS, BoolS, BytesS, LBytesS)
from .axioms import Axioms, pow_term
from .seqabs import AbsSolver

FEAS_TIMEOUT_MS = 1500
QUICK_FEAS_MS = 250


class PyRaise(Exception):
    def __init__(self, exc, msg=None, site=None):
        self.exc = exc
        self.msg = msg
        self.site = site


class ReturnSig(Exception):
    def __init__(self, value):
        self.value = value


class BreakSig(Exception):
    pass


class ContinueSig(Exception):
    pass


class StopPath(Exception):
    """Path ends at a cut point (loop 'preserve' run)."""


class DeadPath(Exception):
    """Path condition became unsatisfiable."""


class NeedInvariant(Unsupported):
    pass


class FrameViolation(Unsupported):
    """The verified code writes to state that outlives the call (a module-level object)."""


class Path:
    def __init__(self, ctx, kind, value=None, exc=None):
        self.pc = list(ctx.pc)
        self.tfacts = list(ctx.tfacts)
        self.axioms = list(ctx.ax_inst)
        self.kind = kind          # 'return' | 'raise' | 'stop'
        self.value = value
        self.exc = exc
        self.obligs = ctx.obligs
        self.notes = ctx.notes
        self.trace = list(ctx.trace)
        self.ctx = ctx


class Oblig:
    def __init__(self, name, hyps, goal, meta=None):
        self.name = name
        self.hyps = hyps
        self.goal = goal
        self.meta = meta or {}


class Ctx:
    def __init__(self, decisions=(), base_pc=(), parent=None, opts=None, base_tfacts=()):
        self.tfacts = []
        self._tf_seen = {}
        self.dec = list(decisions)
        self.pos = 0
        self.trace = []
        self.alts = []
        self.pc = []
        self.shared = parent is not None and parent.solver is not None
        if self.shared:
            # sub-exploration (contract clause / ghost definition): reuse the parent's solver state
            self.solver = parent.solver
            self.ax = parent.ax
            self.ax_inst = parent.ax_inst
            self.solver.push()
            self.pc = list(parent.pc)
            self.tfacts = list(parent.tfacts)
            self._tf_seen = dict(parent._tf_seen)
            self.ghost = {k: (list(v) if isinstance(v, list) else v) for k, v in parent.ghost.items()}
        else:
            self.ax = Axioms()
            self.ax.extra_rules = list((opts or {}).get("extra_rules", []))
            self.ax.fuel = (opts or {}).get("fuel", 1)
            self.ax.no_concat_law = bool((opts or {}).get("no_concat_law"))
            self.ax_inst = []
            self.solver = AbsSolver((opts or {}).get("feas_ms", FEAS_TIMEOUT_MS), nla=(opts or {}).get("nla", True))
        self.obligs = []
        self.notes = {"inlined": set(), "unrolled": {}, "native": set(), "assumed_contracts": set()}
        self.counters = {}
        self.opts = opts or {}
        if not (parent is not None and parent.solver is not None):
            self.ghost = {}
        self.spec_apps = parent.spec_apps if parent is not None else {}
        self.inputs = parent.inputs if parent is not None else []
        if parent is not None:
            self.counters = parent.counters  # share so fresh names never clash
        if not self.shared:
            for f in base_tfacts:
                self.assume_type(f)
            for f in base_pc:
                self.assume(f)
        self.n_base_tfacts = len(self.tfacts)
        self.n_base_pc = len(self.pc)

    def close(self):
        if self.shared:
            self.solver.pop()

    def assume_type(self, z):
        """Type invariant of a value (e.g. a bytes element is in range(256)): kept apart from the path condition."""
        z = z3.simplify(z)
        if z3.is_true(z):
            return
        k = z.get_id()
        if k in self._tf_seen and self._tf_seen[k].eq(z):
            return
        self._tf_seen[k] = z
        self.tfacts.append(z)
        self.solver.add_fact(z)

    # ---- fresh symbols
    def fresh_name(self, base):
        n = self.counters.get(base, 0)
        self.counters[base] = n + 1
        return f"{base}!{n}" if n else base

    def fresh_int(self, base):
        return VInt(z3.Int(self.fresh_name(base)))

    def fresh_bool(self, base):
        return VBool(z3.Bool(self.fresh_name(base)))

    def fresh_bytes(self, base, n=None):
        z = z3.Const(self.fresh_name(base), BytesS)
        if n is not None:
            self.assume(z3.Length(z) == n)
        return VBytes([Chunk(z, n)])

    # ---- path condition
    def assume(self, z):
        if isinstance(z, bool):
            if not z:
                raise DeadPath()
            return
        if isinstance(z, VBool):
            z = z.z
        z = z3.simplify(z)
        if z3.is_true(z):
            return
        if z3.is_false(z):
            raise DeadPath()
        self.pc.append(z)
        self.solver.add(z)
        self.feed_axioms(z)

    def feed_axioms(self, z):
        for inst in self.ax.feed([z]):
            self.ax_inst.append(inst)
            self.solver.add_fact(inst)

    def feasible(self, z, quick=False):
        self.feed_axioms(z)
        return self.solver.check_with(z) != z3.unsat

    def valid(self, z):
        """PC => z (decided by the in-process solver; unknown counts as not valid)."""
        if isinstance(z, bool):
            return z
        z = z3.simplify(z)
        if z3.is_true(z):
            return True
        self.feed_axioms(z)
        return self.solver.check_with(z3.Not(z)) == z3.unsat

    def decide(self, cond, loop_guard=False):
        if isinstance(cond, bool):
            return cond
        z = cond.z if isinstance(cond, VBool) else cond
        z = z3.simplify(z)
        if z3.is_true(z):
            return True
        if z3.is_false(z):
            return False
        if self.pos < len(self.dec):
            d = self.dec[self.pos]
        else:
            # branch pruning: a short budget is enough (an undecided side is simply explored)
            t = self.feasible(z, quick=not loop_guard)
            f = self.feasible(z3.Not(z), quick=not loop_guard)
            if t and f:
                if loop_guard:
                    raise NeedInvariant("loop guard not decided by the path condition")
                self.alts.append(self.trace + [0])
                d = 1
            elif t:
                d = 1
            elif f:
                d = 0
            else:
                raise DeadPath()
        self.pos += 1
        self.trace.append(d)
        self.assume(z if d else z3.Not(z))
        return bool(d)

    def fork(self, n):
        """Nondeterministic n-way choice (verification modes, Optional params)."""
        if self.pos < len(self.dec):
            d = self.dec[self.pos]
        else:
            for k in range(1, n):
                self.alts.append(self.trace + [k])
            d = 0
        self.pos += 1
        self.trace.append(d)
        return d

    def oblige(self, name, goal, meta=None):
        if isinstance(goal, VBool):
            goal = goal.z
        if isinstance(goal, bool):
            goal = z3.BoolVal(goal)
        o = Oblig(name, list(self.pc) + list(self.tfacts), goal, meta)
        # try it right here on the live incremental solver (sequence abstraction): unsat = discharged
        o.inline = None
        g = z3.simplify(goal)
        if z3.is_true(g):
            o.inline = "simplifier"
        else:
            import time as _t
            t0 = _t.time()
            try:
                if self.valid(g):
                    o.inline = "z3-5.1.0(api, incremental, EUF+LIA abstraction of sequences)"
            except NotImplementedError:
                pass
            o.inline_secs = _t.time() - t0
        self.obligs.append(o)


def explore(run, base_pc=(), parent=None, opts=None, max_paths=4000, base_tfacts=()):
    """run(ctx) -> value.  Returns list[Path]."""
    import time as _t
    work = [[]]
    paths = []
    deadline = (opts or {}).get("deadline")
    while work:
        if deadline is not None and _t.time() > deadline:
            raise Unsupported("generation budget of this theorem exhausted (too many / too expensive paths)")
        dec = work.pop()
        try:
            ctx = Ctx(dec, base_pc, parent, opts, base_tfacts)
        except DeadPath:
            continue
        try:
            v = run(ctx)
            paths.append(Path(ctx, "return", value=v))
        except PyRaise as e:
            paths.append(Path(ctx, "raise", exc=e))
        except StopPath:
            paths.append(Path(ctx, "stop"))
        except DeadPath:
            if ctx.obligs:
                paths.append(Path(ctx, "dead"))   # obligations emitted before the path died still count
        finally:
            ctx.close()
        work.extend(ctx.alts)
        if len(paths) > max_paths:
            raise Unsupported(f"more than {max_paths} paths")
    return paths


# ----------------------------------------------------------------------------- repo access

class Repo:
    """Real source text + the module objects imported from the same tree."""

    def __init__(self, root):
        self.root = os.path.abspath(root)
        self.src = os.path.join(self.root, "src")
        self._files = {}
        self._fdefs = {}

    def tree(self, filename):
        t = self._files.get(filename)
        if t is None:
            with open(filename, "r") as fh:
                text = fh.read()
            t = (ast.parse(text, filename), text)
            self._files[filename] = t
        return t

    def fdef(self, fobj):
        code = fobj.__code__
        key = (code.co_filename, code.co_firstlineno, code.co_name)
        fd = self._fdefs.get(key)
        if fd is None:
            tree, _ = self.tree(code.co_filename)
            for node in ast.walk(tree):
                if isinstance(node, (ast.FunctionDef,)) and node.name == code.co_name:
                    first = node.decorator_list[0].lineno if node.decorator_list else node.lineno
                    if first == code.co_firstlineno or node.lineno == code.co_firstlineno:
                        fd = node
                        break
            if fd is None:
                raise Unsupported(f"cannot locate source of {code.co_name} in {code.co_filename}")
            self._fdefs[key] = fd
        return fd

    def span(self, fobj):
        fd = self.fdef(fobj)
        _, text = self.tree(fobj.__code__.co_filename)
        lines = text.splitlines(True)
        seg = "".join(lines[fd.lineno - 1:fd.end_lineno])
        return (os.path.relpath(fobj.__code__.co_filename, self.root), fd.lineno, fd.end_lineno,
                hashlib.sha256(seg.encode()).hexdigest())

    def is_repo_function(self, f):
        return (isinstance(f, types.FunctionType)
                and os.path.abspath(f.__code__.co_filename).startswith(self.src))

    def resolve(self, qualname):
        """'bits.utils.point' or 'bits.p2p.Node.recv_loop' -> object."""
        import importlib
        parts = qualname.split(".")
        for i in range(len(parts), 0, -1):
            modname = ".".join(parts[:i])
            try:
                obj = importlib.import_module(modname)
            except ImportError:
                continue
            for p in parts[i:]:
                obj = getattr(obj, p)
            return obj
        raise Unsupported(f"unbound contract: {qualname} not found")


class BoundMethod:
    def __init__(self, recv, name):
        self.recv = recv
        self.name = name


class HashObj:
    def __init__(self, algo, data):
        self.algo = algo
        self.data = data


class Closure:
    def __init__(self, node, frame):
        self.node = node
        self.frame = frame


class Frame:
    def __init__(self, locals_, globals_, fname="<contract>", qual=None, fdef=None):
        self.locals = locals_
        self.globals = globals_
        self.fname = fname
        self.qual = qual
        self.fdef = fdef


from .sym import VWord, VPhrase, VStr  # noqa: E402
VALUE_TYPES = (int, bool, bytes, str, list, dict, tuple, type(None), VInt, VBool, VBytes, VSeq, VHex, VOpaque, range,
               VWord, VPhrase, VStr)

EXC_BY_NAME = {n: getattr(builtins, n) for n in dir(builtins)
               if isinstance(getattr(builtins, n), type) and issubclass(getattr(builtins, n), BaseException)}


class Interp:
    def __init__(self, ctx, repo, specmods=None, contracts=None, modular=(), native_ok=()):
        self.ctx = ctx
        self.repo = repo
        self.specmods = specmods or {}
        self.contracts = contracts or {}     # fobj -> Contract (for modular calls)
        self.modular = set(modular)          # qualnames verified modularly at call sites
        self.native_ok = set(native_ok)      # qualnames that may be evaluated natively on concrete args
        self.depth = 0
        from . import models
        self.models = models

    # ------------------------------------------------------------------ helpers
    def truth(self, v):
        """Python truthiness as bool / VBool."""
        if isinstance(v, (bool, int, str, bytes, list, dict, tuple, type(None), range)):
            return bool(v)
        if isinstance(v, VBool):
            return v
        if isinstance(v, VInt):
            return mk_bool(v.z != 0)
        if isinstance(v, VBytes):
            k = v.klen()
            if k is not None:
                return k > 0
            return mk_bool(v.zlen() > 0)
        if isinstance(v, VSeq):
            return mk_bool(z3.Length(v.z) > 0)
        if isinstance(v, VHex):
            return self.truth(v.b)
        if isinstance(v, VOpaque):
            return True
        if isinstance(v, (types.FunctionType, types.ModuleType, BoundMethod, Closure, GhostFn, GhostObj)):
            return True
        raise Unsupported(f"truthiness of {type(v).__name__}")

    def decide(self, v, loop_guard=False):
        return self.ctx.decide(self.truth(v), loop_guard=loop_guard)

    def raise_(self, exc, node=None, msg=None):
        raise PyRaise(exc, msg, getattr(node, "lineno", None))

    # ------------------------------------------------------------------ statements
    def exec_block(self, stmts, fr):
        for s in stmts:
            self.exec_stmt(s, fr)

    def exec_stmt(self, s, fr):
        self.cur_frame = fr
        m = getattr(self, "s_" + type(s).__name__, None)
        if m is None:
            raise Unsupported(f"statement {type(s).__name__} at {fr.fname}:{s.lineno}")
        return m(s, fr)

    def s_Expr(self, s, fr):
        if isinstance(s.value, ast.Constant):
            return  # docstring
        self.eval(s.value, fr)

    def s_Pass(self, s, fr):
        pass

    def s_Global(self, s, fr):
        raise Unsupported("global statement")

    def s_Assign(self, s, fr):
        v = self.eval(s.value, fr)
        for t in s.targets:
            self.assign(t, v, fr)

    def s_AnnAssign(self, s, fr):
        if s.value is not None:
            self.assign(s.target, self.eval(s.value, fr), fr)

    def s_AugAssign(self, s, fr):
        cur = self.eval(_load(s.target), fr)
        v = self.eval(s.value, fr)
        if isinstance(cur, (list, dict)):
            self.check_frame(cur, s, fr)
        if isinstance(cur, list) and isinstance(s.op, ast.Add):
            # in-place list extension keeps identity (aliases see it)
            if isinstance(v, (list, tuple)):
                cur.extend(v)
                return
            raise Unsupported("list += non-list")
        self.assign(s.target, self.binop(s.op, cur, v, s), fr)

    def assign(self, t, v, fr):
        if isinstance(t, ast.Name):
            fr.locals[t.id] = v
        elif isinstance(t, (ast.Tuple, ast.List)):
            items = self.unpack(v, len(t.elts), t)
            for tt, vv in zip(t.elts, items):
                self.assign(tt, vv, fr)
        elif isinstance(t, ast.Subscript):
            base = self.eval(t.value, fr)
            idx = self.eval(t.slice, fr)
            if isinstance(base, (list, dict)):
                self.check_frame(base, t, fr)
            if isinstance(base, (list, dict)) and not is_sym(idx):
                try:
                    base[idx] = v
                except (IndexError, KeyError) as e:
                    self.raise_(type(e), t)
            else:
                raise Unsupported("subscript assignment on symbolic container/index")
        elif isinstance(t, ast.Attribute):
            base = self.eval(t.value, fr)
            if isinstance(base, GhostObj):
                base.setattr(self, t.attr, v)
            else:
                raise Unsupported("attribute assignment")
        else:
            raise Unsupported(f"assignment target {type(t).__name__}")

    def check_frame(self, obj, node, fr):
        """Frame condition of every contract: nothing that outlives the call is modified."""
        g = getattr(fr, "globals", None)
        maps = g.maps if hasattr(g, "maps") else [g]
        for m in maps:
            for name, val in list(m.items()):
                if val is obj:
                    raise FrameViolation(f"{fr.fname}:{getattr(node, 'lineno', '?')}: assignment into module-level object {name!r}")

    def unpack(self, v, n, node):
        if isinstance(v, (tuple, list)):
            if len(v) != n:
                self.raise_(ValueError, node)
            return list(v)
        if v is None:
            self.raise_(TypeError, node)
        if isinstance(v, (bytes, VBytes)):
            k = bytes_len(v)
            if isinstance(k, int):
                if k != n:
                    self.raise_(ValueError, node)
                return [self.index(v, i, node) for i in range(n)]
        raise Unsupported(f"unpacking {type(v).__name__}")

    def s_Return(self, s, fr):
        raise ReturnSig(self.eval(s.value, fr) if s.value is not None else None)

    def s_Break(self, s, fr):
        raise BreakSig()

    def s_Continue(self, s, fr):
        raise ContinueSig()

    def s_If(self, s, fr):
        if self.decide(self.eval(s.test, fr)):
            self.exec_block(s.body, fr)
        else:
            self.exec_block(s.orelse, fr)

    def s_Assert(self, s, fr):
        if not self.decide(self.eval(s.test, fr)):
            self.raise_(AssertionError, s, self._msg(s.msg, fr))

    def _msg(self, node, fr):
        if node is None:
            return None
        try:
            return self.eval(node, fr)
        except (Unsupported, PyRaise):
            return VOpaque()

    def s_Raise(self, s, fr):
        if s.exc is None:
            raise Unsupported("bare raise")
        e = s.exc
        msg = None
        if isinstance(e, ast.Call):
            cls = self.eval(e.func, fr)
            if e.args:
                msg = self._msg(e.args[0], fr)
        else:
            cls = self.eval(e, fr)
        if not (isinstance(cls, type) and issubclass(cls, BaseException)):
            raise Unsupported("raise of non-exception class")
        raise PyRaise(cls, msg, s.lineno)

    def s_Try(self, s, fr):
        if s.finalbody:
            raise Unsupported("try/finally")
        try:
            self.exec_block(s.body, fr)
        except PyRaise as e:
            for h in s.handlers:
                if h.type is None:
                    classes = (BaseException,)
                else:
                    c = self.eval(h.type, fr)
                    classes = tuple(c) if isinstance(c, tuple) else (c,)
                if issubclass(e.exc, classes):
                    if h.name:
                        fr.locals[h.name] = ExcValue(e)
                    self.exec_block(h.body, fr)
                    return
            raise
        else:
            self.exec_block(s.orelse, fr)

    def s_With(self, s, fr):
        for item in s.items:
            v = self.eval(item.context_expr, fr)
            if not isinstance(v, GhostObj):
                raise Unsupported("with statement on a non-ghost object")
            if item.optional_vars is not None:
                self.assign(item.optional_vars, v, fr)
        self.exec_block(s.body, fr)

    def s_FunctionDef(self, s, fr):
        raise Unsupported("nested function definition")

    # ---- loops
    def loop_spec(self, s, fr):
        c = self.ctx.opts.get("loopspecs")
        if not c or fr.qual is None:
            return None
        return c.get((fr.qual, self._loop_ordinal(s, fr)))

    def _loop_ordinal(self, s, fr):
        fd = fr.fdef
        if fd is None:
            return None
        n = 0
        for node in ast.walk(fd):
            if isinstance(node, (ast.For, ast.While)):
                n += 1
                if node is s:
                    return n
        return None

    def s_While(self, s, fr):
        spec = self.loop_spec(s, fr)
        if spec is not None:
            return self.cut_while(s, fr, spec)
        n = 0
        limit = self.ctx.opts.get("unroll_limit", 600)
        while True:
            g = self.eval(s.test, fr)
            if not self.decide(g, loop_guard=True):
                break
            n += 1
            if n > limit:
                raise NeedInvariant(f"while loop at {fr.fname}:{s.lineno} exceeds unroll limit")
            try:
                self.exec_block(s.body, fr)
            except BreakSig:
                break
            except ContinueSig:
                continue
        else:
            pass
        self.ctx.notes["unrolled"][f"{fr.fname}:{s.lineno}"] = max(n, self.ctx.notes["unrolled"].get(f"{fr.fname}:{s.lineno}", 0))
        if s.orelse:
            raise Unsupported("while/else")

    def iter_values(self, it, node):
        """Concrete-length iteration: list of element values, or None if length is symbolic."""
        if isinstance(it, (list, tuple, range, str, dict, type({}.values()), type({}.keys()), type({}.items()), set, frozenset)):
            return list(it)
        if isinstance(it, bytes):
            return list(it)
        if isinstance(it, VBytes):
            k = it.klen()
            if k is None:
                return None
            return [self.index(it, i, node) for i in range(k)]
        if isinstance(it, IterView):
            return it.values(self, node)
        if isinstance(it, VSeq):
            return None
        raise Unsupported(f"iteration over {type(it).__name__}")

    def s_For(self, s, fr):
        if s.orelse:
            raise Unsupported("for/else")
        it = self.eval(s.iter, fr)
        spec = self.loop_spec(s, fr)
        if spec is not None:
            return self.cut_for(s, fr, spec, it)
        vals = self.iter_values(it, s)
        if vals is None:
            vals = self.iter_symbolic_unroll(it, s)
            n = 0
            for v in vals:
                n += 1
                self.assign(s.target, v, fr)
                try:
                    self.exec_block(s.body, fr)
                except BreakSig:
                    break
                except ContinueSig:
                    continue
            self.ctx.notes["unrolled"][f"{fr.fname}:{s.lineno}"] = n
            return
        for v in vals:
            self.assign(s.target, v, fr)
            try:
                self.exec_block(s.body, fr)
            except BreakSig:
                break
            except ContinueSig:
                continue

    def iter_symbolic_unroll(self, it, node):
        """Generator over elements of a symbolic-length iterable whose length the path condition decides."""
        n, getter = self.sym_iter(it, node)
        i = 0
        limit = self.ctx.opts.get("unroll_limit", 600)
        while True:
            if not self.ctx.decide(mk_bool(zi(i) < zi(n)), loop_guard=True):
                return
            if i >= limit:
                raise NeedInvariant("for loop exceeds unroll limit")
            yield getter(i)
            i += 1

    def sym_iter(self, it, node):
        """(trip count, getter(k)) for a symbolic-length iterable."""
        if isinstance(it, VBytes):
            return bytes_len(it), (lambda k: self.index(it, k, node, checked=False))
        if isinstance(it, VSeq):
            return mk_int(z3.Length(it.z)), (lambda k: self.seq_index(it, k))
        if isinstance(it, IterView):
            return it.sym_iter(self, node)
        raise Unsupported(f"symbolic iteration over {type(it).__name__}")

    # cut-point loops are implemented in loops.py (mixed in at import of pyvc.loops)

    # ------------------------------------------------------------------ expressions
    def eval(self, e, fr):
        m = getattr(self, "e_" + type(e).__name__, None)
        if m is None:
            raise Unsupported(f"expression {type(e).__name__} at {fr.fname}:{getattr(e, 'lineno', '?')}")
        return m(e, fr)

    def e_Constant(self, e, fr):
        return e.value

    def e_Name(self, e, fr):
        if e.id in fr.locals:
            return fr.locals[e.id]
        if e.id.startswith("ghost_") and e.id in self.ctx.ghost:
            return self.ctx.ghost[e.id]
        if e.id == "MAX_BLOCKFILE_SIZE" and "fs_limit" in self.ctx.ghost:
            return self.ctx.ghost["fs_limit"]      # module attribute set by the replay harness (spec.fs.run_write)
        if e.id in fr.globals:
            return fr.globals[e.id]
        if hasattr(builtins, e.id):
            return getattr(builtins, e.id)
        self.raise_(NameError, e, e.id)

    def e_Tuple(self, e, fr):
        return tuple(self.eval_elts(e.elts, fr))

    def e_List(self, e, fr):
        return list(self.eval_elts(e.elts, fr))

    def eval_elts(self, elts, fr):
        out = []
        for x in elts:
            if isinstance(x, ast.Starred):
                v = self.eval(x.value, fr)
                if not isinstance(v, (tuple, list)):
                    if v is None:
                        self.raise_(TypeError, x)
                    raise Unsupported("star of non-tuple")
                out.extend(v)
            else:
                out.append(self.eval(x, fr))
        return out

    def e_Dict(self, e, fr):
        d = {}
        for k, v in zip(e.keys, e.values):
            if k is None:
                raise Unsupported("dict unpacking")
            kk = self.eval(k, fr)
            if is_sym(kk):
                raise Unsupported("symbolic dict key")
            d[kk] = self.eval(v, fr)
        return d

    def e_JoinedStr(self, e, fr):
        parts = []
        for p in e.values:
            if isinstance(p, ast.Constant):
                parts.append(p.value)
            else:
                try:
                    v = self.eval(p.value, fr)
                except Unsupported:
                    return VOpaque()
                if isinstance(v, VInt) and p.format_spec is None and p.conversion == -1:
                    vals = self.enumerate_int(v, 40)
                    if vals is None:
                        return VOpaque()
                    v = vals
                if is_sym(v) or not isinstance(v, (int, str, bytes, bool, type(None), list, tuple, dict)):
                    return VOpaque()
                spec = ""
                if p.format_spec is not None:
                    s2 = self.e_JoinedStr(p.format_spec, fr)
                    if isinstance(s2, VOpaque):
                        return VOpaque()
                    spec = s2
                if p.conversion == ord("r"):
                    v = repr(v)
                elif p.conversion == ord("s"):
                    v = str(v)
                try:
                    parts.append(format(v, spec))
                except Exception:
                    return VOpaque()
        return "".join(parts)

    def enumerate_int(self, v, maxn):
        """Fork over the feasible values of a symbolic int when there are at most maxn; returns the value."""
        vals = self.ctx.solver.enum_values(v.z, maxn)
        if vals is None:
            return None
        if not vals:
            raise DeadPath()
        vals.sort()
        for x in vals[:-1]:
            if self.ctx.decide(mk_bool(v.z == x)):
                return x
        self.ctx.assume(v.z == vals[-1])
        return vals[-1]

    def e_IfExp(self, e, fr):
        if self.decide(self.eval(e.test, fr)):
            return self.eval(e.body, fr)
        return self.eval(e.orelse, fr)

    def e_BoolOp(self, e, fr):
        is_and = isinstance(e.op, ast.And)
        v = None
        for i, x in enumerate(e.values):
            v = self.eval(x, fr)
            if i == len(e.values) - 1:
                return v
            t = self.decide(v)
            if is_and and not t:
                return v
            if (not is_and) and t:
                return v
        return v

    def e_UnaryOp(self, e, fr):
        v = self.eval(e.operand, fr)
        if isinstance(e.op, ast.Not):
            t = self.truth(v)
            return (not t) if isinstance(t, bool) else mk_bool(z3.Not(t.z))
        if isinstance(e.op, ast.USub):
            if isinstance(v, (int, float)):
                return -v
            return mk_int(-zi(v))
        if isinstance(e.op, ast.UAdd):
            return v
        raise Unsupported("unary op")

    def e_BinOp(self, e, fr):
        a = self.eval(e.left, fr)
        b = self.eval(e.right, fr)
        return self.binop(e.op, a, b, e)

    def e_Compare(self, e, fr):
        left = self.eval(e.left, fr)
        result = None
        for op, rn in zip(e.ops, e.comparators):
            right = self.eval(rn, fr)
            r = self.compare(op, left, right, e)
            if result is None:
                result = r
            else:
                result = self.and_(result, r)
            if len(e.ops) > 1 and isinstance(result, bool) and not result:
                return False
            left = right
        return result

    def and_(self, a, b):
        if isinstance(a, bool):
            return b if a else False
        if isinstance(b, bool):
            return a if b else False
        return mk_bool(z3.And(a.z, b.z))

    def e_Lambda(self, e, fr):
        return Closure(e, fr)

    def e_Attribute(self, e, fr):
        base = self.eval(e.value, fr)
        return self.getattr(base, e.attr, e)

    def getattr(self, base, name, node=None):
        if isinstance(base, GhostObj):
            return base.getattr(self, name)
        if isinstance(base, ExcValue):
            if name == "args":
                return (base.e.msg,)
            raise Unsupported("exception attribute")
        if isinstance(base, HashObj):
            return BoundMethod(base, name)
        if isinstance(base, VALUE_TYPES) and not isinstance(base, type):
            if base is None:
                self.raise_(AttributeError, node)
            return BoundMethod(base, name)
        if base is int and name in ("from_bytes", "to_bytes"):
            return BoundMethod(int, name)
        if base is bytes and name == "fromhex":
            return BoundMethod(bytes, name)
        try:
            return getattr(base, name)
        except AttributeError:
            self.raise_(AttributeError, node)

    def e_Subscript(self, e, fr):
        base = self.eval(e.value, fr)
        if isinstance(e.slice, ast.Slice):
            lo = self.eval(e.slice.lower, fr) if e.slice.lower is not None else None
            hi = self.eval(e.slice.upper, fr) if e.slice.upper is not None else None
            st = self.eval(e.slice.step, fr) if e.slice.step is not None else None
            return self.slice(base, lo, hi, st, e)
        idx = self.eval(e.slice, fr)
        return self.index(base, idx, e)

    def e_ListComp(self, e, fr):
        return self.comprehension(e, fr)

    def e_GeneratorExp(self, e, fr):
        return self.comprehension(e, fr)

    def comprehension(self, e, fr):
        if len(e.generators) != 1:
            raise Unsupported("nested comprehension")
        g = e.generators[0]
        it = self.eval(g.iter, fr)
        vals = self.iter_values(it, e)
        if vals is None:
            if not g.ifs and (isinstance(it, VSeq) or (isinstance(it, IterView) and it.kind == "range")):
                try:
                    n, _ = self.sym_iter(it, e)
                    decided = isinstance(n, int)
                except Unsupported:
                    decided = False
                if not decided and self.ctx.solver.enum_values(zi(n), 1) is None:
                    return self.models.seq_map(self, it, e, g, fr)
            vals = list(self.iter_symbolic_unroll(it, e))
        out = []
        sub = Frame(dict(fr.locals), fr.globals, fr.fname)
        for v in vals:
            self.assign(g.target, v, sub)
            ok = True
            for c in g.ifs:
                if not self.decide(self.eval(c, sub)):
                    ok = False
                    break
            if ok:
                out.append(self.eval(e.elt, sub))
        return out

    def e_Call(self, e, fr):
        # x.append(v) on a symbolic-length list bound to a local name: functional update of the binding
        if (isinstance(e.func, ast.Attribute) and e.func.attr == "append" and isinstance(e.func.value, ast.Name)
                and isinstance(fr.locals.get(e.func.value.id), VSeq) and len(e.args) == 1 and not e.keywords):
            cur = fr.locals[e.func.value.id]
            v = self.eval(e.args[0], fr)
            fr.locals[e.func.value.id] = self.binop(ast.Add(), cur, [v], e)
            return None
        f = self.eval(e.func, fr)
        args = self.eval_elts(e.args, fr)
        kwargs = {}
        for k in e.keywords:
            if k.arg is None:
                d = self.eval(k.value, fr)
                if not isinstance(d, dict):
                    raise Unsupported("** of non-dict")
                kwargs.update(d)
            else:
                kwargs[k.arg] = self.eval(k.value, fr)
        return self.call(f, args, kwargs, e)

    # ------------------------------------------------------------------ calls
    def call(self, f, args, kwargs, node=None):
        if isinstance(f, BoundMethod):
            return self.models.call_method(self, f.recv, f.name, args, kwargs, node)
        if isinstance(f, Closure):
            return self.call_closure(f, args)
        if isinstance(f, GhostFn):
            return f(self, args, kwargs, node)
        if isinstance(f, types.MethodType) and self.repo.is_repo_function(f.__func__):
            return self.call(f.__func__, [f.__self__] + list(args), kwargs, node)
        if isinstance(f, types.FunctionType):
            if getattr(f, "__module__", "") == "spec.p2p" and f.__name__ == "node_iteration":
                from . import ghosts
                return ghosts.node_iteration(self, args, kwargs, node)
            if getattr(f, "__module__", "") == "spec.ec" and f.__name__ == "key_with_draws":
                import bits.keys
                return self.call(bits.keys.key, [], {}, node)      # the RNG is the ghost contract (every draw)
            if getattr(f, "__module__", "") == "spec.ec" and f.__name__ == "sign_with_draws":
                import bits.ecmath
                return self.call(bits.ecmath.sign, [args[0], args[1]], {}, node)
            if getattr(f, "__module__", "") == "spec.cli" and f.__name__ == "effective_config":
                from . import ghosts
                return ghosts.effective_config(self, args, kwargs, node)
            if getattr(f, "__module__", "") == "spec.fs" and f.__name__ == "run_write":
                from . import ghosts
                return ghosts.fs_run_write(self, args, kwargs, node)
            if self.repo.is_repo_function(f):
                if f.__name__ == "recv_msg" and "node_inbox" in self.ctx.ghost:
                    from . import ghosts
                    return ghosts.recv_msg_from_inbox(self, f, args, kwargs, node)
                return self.call_repo(f, args, kwargs, node)
            sp = self.spec_of(f)
            if sp is not None:
                return self.call_spec(f, sp, args, kwargs, node)
        return self.models.call_builtin(self, f, args, kwargs, node)

    def call_closure(self, c, args):
        a = c.node.args
        if a.vararg or a.kwarg or a.kwonlyargs or a.defaults:
            raise Unsupported("lambda signature")
        names = [x.arg for x in a.args]
        if len(names) != len(args):
            self.raise_(TypeError, c.node)
        sub = Frame(dict(c.frame.locals), c.frame.globals, c.frame.fname)
        sub.locals.update(zip(names, args))
        return self.eval(c.node.body, sub)

    def qualname(self, f):
        return f"{f.__module__}.{f.__qualname__}"

    def bind(self, fd, f, args, kwargs, node):
        a = fd.args
        if a.vararg:
            raise Unsupported(f"*args in {f.__name__}")
        names = [x.arg for x in a.posonlyargs + a.args]
        env = {}
        extra = {}
        if len(args) > len(names):
            self.raise_(TypeError, node)
        for n, v in zip(names, args):
            env[n] = v
        for k, v in kwargs.items():
            if k in env:
                self.raise_(TypeError, node)
            if k not in names and k not in [x.arg for x in a.kwonlyargs]:
                if a.kwarg:
                    extra[k] = v
                    continue
                self.raise_(TypeError, node)
            env[k] = v
        if a.kwarg:
            env[a.kwarg.arg] = extra
        defaults = f.__defaults__ or ()
        for n, d in zip(names[len(names) - len(defaults):], defaults):
            if n not in env:
                env[n] = d if not isinstance(d, list) else list(d)
        for x in a.kwonlyargs:
            if x.arg not in env and f.__kwdefaults__ and x.arg in f.__kwdefaults__:
                env[x.arg] = f.__kwdefaults__[x.arg]
        for n in names:
            if n not in env:
                self.raise_(TypeError, node)
        return env

    def call_repo(self, f, args, kwargs, node):
        qn = self.qualname(f)
        if qn in self.native_ok and not is_sym(args) and not is_sym(kwargs):
            self.ctx.notes["native"].add(qn)
            try:
                return f(*args, **kwargs)
            except Exception as ex:  # noqa
                self.raise_(type(ex), node)
        hook = self.ctx.opts.get("call_hooks", {}).get(qn)
        if hook is not None:
            r = hook(self, f, args, kwargs, node)
            if r is not NotImplemented:
                return r
        if qn in self.modular and f in self.contracts:
            from . import modular
            return modular.call_by_contract(self, f, self.contracts[f], args, kwargs, node)
        return self.inline(f, args, kwargs, node)

    def inline(self, f, args, kwargs, node, note=True):
        fd = self.repo.fdef(f)
        env = self.bind(fd, f, args, kwargs, node)
        fr = Frame(env, f.__globals__, os.path.relpath(f.__code__.co_filename, self.repo.root),
                   qual=self.qualname(f), fdef=fd)
        if note:
            self.ctx.notes["inlined"].add(self.qualname(f))
        self.depth += 1
        if self.depth > 60:
            raise Unsupported("call depth")
        try:
            self.exec_block(fd.body, fr)
        except ReturnSig as r:
            return r.value
        finally:
            self.depth -= 1
        return None

    # ---- spec functions
    def spec_of(self, f):
        mod = getattr(f, "__module__", "") or ""
        if mod.startswith("spec.") or mod == "spec":
            return getattr(f, "__pyvc__", {"kind": "inline"})
        return None

    def call_spec(self, f, sp, args, kwargs, node):
        if not is_sym(args) and not is_sym(kwargs):
            try:
                return f(*args, **kwargs)
            except Exception as ex:  # noqa
                self.raise_(type(ex), node)
        if sp.get("kind") == "model":
            return sp["model"](self, args, kwargs, node)
        if sp.get("kind") == "uf":
            from . import specs
            return specs.apply_uf(self, f, sp, args, kwargs, node)
        # inline: symbolic execution of the spec function's own source
        fd = _spec_fdef(f)
        env = self.bind(fd, f, args, kwargs, node)
        fr = Frame(env, f.__globals__, f"spec:{f.__name__}", qual=f"spec.{f.__name__}", fdef=fd)
        self.depth += 1
        if self.depth > 60:
            raise Unsupported("call depth")
        try:
            self.exec_block(fd.body, fr)
        except ReturnSig as r:
            return r.value
        finally:
            self.depth -= 1
        return None

    # ------------------------------------------------------------------ operators
    def binop(self, op, a, b, node):
        return self.models.binop(self, op, a, b, node)

    def compare(self, op, a, b, node):
        return self.models.compare(self, op, a, b, node)

    def index(self, base, idx, node, checked=True):
        return self.models.index(self, base, idx, node, checked)

    def slice(self, base, lo, hi, st, node):
        return self.models.slice_(self, base, lo, hi, st, node)

    def seq_index(self, s, k):
        from . import specs
        if z3.is_app(s.z) and s.z.decl().name() in specs._MAPS:
            elt_at = specs._MAPS[s.z.decl().name()][0]
            z = elt_at(self, s.z.children(), zi(k))
            if s.elem == "int":
                return mk_int(z)
            b = specs.vbytes_from_term(z3.simplify(z)) if s.elen is None else VBytes([Chunk(z3.simplify(z), s.elen)])
            return VHex(b) if s.elem == "hex" else b
        z = s.z[zi(k)]
        if s.elem == "int":
            return mk_int(z)
        b = VBytes([Chunk(z, s.elen)])
        return VHex(b) if s.elem == "hex" else b


class ExcValue:
    def __init__(self, e):
        self.e = e


class IterView:
    """enumerate / reversed / zip / range views over (possibly symbolic) iterables."""

    def __init__(self, kind, *parts):
        self.kind = kind
        self.parts = parts

    def values(self, it, node):
        k = self.kind
        if k == "enumerate":
            vals = it.iter_values(self.parts[0], node)
            if vals is None:
                return None
            start = self.parts[1]
            return [(start + i, v) for i, v in enumerate(vals)]
        if k == "reversed":
            vals = it.iter_values(self.parts[0], node)
            if vals is None:
                return None
            return list(reversed(vals))
        if k == "zip":
            cols = [it.iter_values(p, node) for p in self.parts]
            if any(c is None for c in cols):
                return None
            return list(zip(*cols))
        if k == "range":
            return None
        raise Unsupported(k)

    def sym_iter(self, it, node):
        k = self.kind
        if k == "enumerate":
            n, g = it.sym_iter(self.parts[0], node)
            start = self.parts[1]
            return n, (lambda i: (it.binop(ast.Add(), start, i, node), g(i)))
        if k == "reversed":
            n, g = it.sym_iter(self.parts[0], node)
            return n, (lambda i: g(it.binop(ast.Sub(), it.binop(ast.Sub(), n, 1, node), i, node)))
        if k == "range":
            start, stop, step = self.parts
            if not isinstance(step, int) or step == 0:
                raise Unsupported("symbolic range step")
            if step > 0:
                n = mk_int(z3.If(zi(stop) > zi(start), (zi(stop) - zi(start) + (step - 1)) / step, 0))
            else:
                n = mk_int(z3.If(zi(start) > zi(stop), (zi(start) - zi(stop) + (-step - 1)) / (-step), 0))
            return n, (lambda i: mk_int(zi(start) + zi(i) * step))
        raise Unsupported(k)


class GhostObj:
    """Environment object with a contract instead of a body (socket, file, Config self, ...)."""

    def getattr(self, it, name):
        raise Unsupported(f"ghost attribute {name}")

    def setattr(self, it, name, v):
        raise Unsupported(f"ghost attribute assignment {name}")


class GhostFn:
    def __init__(self, fn):
        self.fn = fn

    def __call__(self, it, args, kwargs, node):
        return self.fn(it, args, kwargs, node)


def _load(t):
    import copy
    t2 = copy.deepcopy(t)
    for n in ast.walk(t2):
        if hasattr(n, "ctx"):
            n.ctx = ast.Load()
    return t2


_SPEC_FDEFS = {}


def _spec_fdef(f):
    key = (f.__code__.co_filename, f.__code__.co_firstlineno)
    fd = _SPEC_FDEFS.get(key)
    if fd is None:
        with open(f.__code__.co_filename) as fh:
            tree = ast.parse(fh.read())
        for node in ast.walk(tree):
            if isinstance(node, ast.FunctionDef) and node.name == f.__code__.co_name:
                first = node.decorator_list[0].lineno if node.decorator_list else node.lineno
                if first == f.__code__.co_firstlineno or node.lineno == f.__code__.co_firstlineno:
                    fd = node
                    break
        if fd is None:
            raise Unsupported(f"spec source of {f.__name__}")
        _SPEC_FDEFS[key] = fd
    return fd
