"""pow(x, y, m) and the modular-arithmetic abstraction (see DESIGN.md C03)."""
import z3
from . import sym
from .sym import Unsupported, zi, mk_int, IntS

F_powmod = sym.uf("powmod", IntS, IntS, IntS, IntS)


def pow_mod(it, x, y, m, node):
    if not sym.is_sym((x, y, m)):
        try:
            return pow(x, y, m)
        except ValueError:
            it.raise_(ValueError, node)
    if isinstance(m, int) and m == 0:
        it.raise_(ValueError, node)
    if isinstance(y, int) and 0 <= y <= 4 and not isinstance(m, int) or (isinstance(y, int) and 0 <= y <= 4 and isinstance(m, int) and m > 0):
        # small constant exponent: the power itself (exact), reduced
        r = z3.IntVal(1)
        for _ in range(y):
            r = r * zi(x)
        if isinstance(m, int):
            from .models import strip_mod
            return mk_int(strip_mod(r, m) % m)
        if it.ctx.valid(zi(m) > 0):
            return mk_int(r % zi(m))
    r = F_powmod(zi(x), zi(y), zi(m))
    it.ctx.assume(z3.Implies(zi(m) > 0, z3.And(r >= 0, r < zi(m))))
    return mk_int(r)
