"""pow(x, y, m) and the modular-arithmetic abstraction (see DESIGN.md C03)."""
import z3
from . import sym
from .sym import Unsupported, zi, mk_int, IntS

F_powmod = sym.uf("powmod", IntS, IntS, IntS, IntS)
F_finv = sym.uf("finv", IntS, IntS, IntS)     # a**-1 mod m (0 for a = 0), m prime

PRIMES = (0xFFFFFFFFFFFFFFFFFFFFFFFFFFFFFFFFFFFFFFFFFFFFFFFFFFFFFFFEFFFFFC2F,
          0xFFFFFFFFFFFFFFFFFFFFFFFFFFFFFFFEBAAEDCE6AF48A03BBFD25E8CD0364141)


def pow_mod(it, x, y, m, node):
    if not sym.is_sym((x, y, m)):
        try:
            return pow(x, y, m)
        except ValueError:
            it.raise_(ValueError, node)
    if isinstance(m, int) and m == 0:
        it.raise_(ValueError, node)
    if isinstance(m, int) and m in PRIMES and isinstance(y, int) and y in (-1, m - 2):
        # x**(m-2) mod m and pow(x, -1, m) are both the field inverse of x modulo the prime m
        # (lemma fermat_inv, lean/Field.lean; A-prime-p / A-prime-n).  pow(0, -1, m) raises ValueError.
        if y == -1:
            if it.ctx.decide(sym.mk_bool(zi(x) % m == 0)):
                it.raise_(ValueError, node)
        it.ctx.notes.setdefault("env", set()).add("A-prime (fermat_inv)")
        r = F_finv(zi(x) % m if not isinstance(x, int) else z3.IntVal(x % m), z3.IntVal(m))
        it.ctx.assume(z3.And(r >= 0, r < m))
        return mk_int(r)
    if isinstance(y, int) and 0 <= y <= 4 and not isinstance(m, int) or (isinstance(y, int) and 0 <= y <= 4 and isinstance(m, int) and m > 0):
        # small constant exponent: the power itself (exact), reduced
        r = z3.IntVal(1)
        for _ in range(y):
            r = r * zi(x)
        if isinstance(m, int):
            from .models import strip_mod
            return mk_int(strip_mod(r, m) % m)
        if it.ctx.valid(zi(m) > 0):
            return mk_int(r % zi(m))
    r = F_powmod(zi(x), zi(y), zi(m))
    it.ctx.assume(z3.Implies(zi(m) > 0, z3.And(r >= 0, r < zi(m))))
    return mk_int(r)
