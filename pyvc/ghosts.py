"""Environment models with contracts instead of bodies (DESIGN.md 2.4): socket, clock, RNG."""
import time as _time
import secrets as _secrets

import z3

from . import sym
from .sym import VInt, VBytes, Chunk, Unsupported, mk_int, mk_bool, zi, to_vbytes, bytes_len
from . import engine as E

TRUSTED = {
    "A-sock": "socket model: recv(n), n > 0, returns the next k bytes of the stream with 1 <= k <= n while data remains "
              "and b'' exactly at end of stream; every fragmentation is a behaviour of this contract",
    "A-clock": "time.time() returns some value t with 0 <= int(t) < 2**63",
    "A-rng": "secrets.randbelow(n) returns some k with 0 <= k < n; secrets.token_bytes(n) returns some n bytes; "
             "successive draws are unrelated fresh values (recorded in the ghost list `draws`)",
}


class GhostSocket(E.GhostObj):
    def __init__(self, it, stream):
        g = it.ctx.ghost
        g["ghost_stream"] = stream
        g["ghost_pos"] = 0
        g["ghost_recv_calls"] = 0
        it.ctx.notes.setdefault("env", set()).add("A-sock")

    def getattr(self, it, name):
        if name == "recv":
            return E.GhostFn(self.recv)
        if name == "pos":
            return it.ctx.ghost["ghost_pos"]
        raise Unsupported(f"socket attribute {name}")

    def recv(self, it, args, kwargs, node):
        ctx = it.ctx
        g = ctx.ghost
        (n,) = args
        # precondition of recv: a positive buffer size (recv(0) returns b'' forever; negative raises)
        ctx.oblige(f"{ctx.opts['thm'].name}.call.sock.recv.pre", mk_bool(zi(n) > 0) if not isinstance(n, int) else n > 0,
                   {"kind": "call-pre", "clause": "recv(bufsize): bufsize > 0"})
        if isinstance(n, int):
            if n <= 0:
                raise Unsupported("recv with non-positive size")
        else:
            ctx.assume(zi(n) > 0)
        stream = to_vbytes(g["ghost_stream"])
        pos = g["ghost_pos"]
        c = ctx.fresh_bytes("chunk")
        cz = c.chunks[0].z
        ln = z3.Length(cz)
        total = zi(bytes_len(stream))
        ctx.assume(z3.And(ln >= 0, ln <= zi(n), ln <= total - zi(pos)))
        ctx.assume(z3.Implies(zi(pos) < total, ln >= 1))
        ctx.assume(cz == z3.Extract(stream.z, zi(pos), ln))
        g["ghost_pos"] = mk_int(zi(pos) + ln)
        return c


def try_call(it, f, args, kwargs, node):
    import spec.p2p as sp
    if f is sp.FakeSocket:
        return GhostSocket(it, args[0])
    if f is sp.node_iteration:
        return node_iteration(it, args, kwargs, node)
    r_ = fs_call(it, f, args, kwargs, node)
    if r_ is not NotImplemented:
        return r_
    r_ = config_call(it, f, args, kwargs, node)
    if r_ is not NotImplemented:
        return r_
    if f is _time.time:
        it.ctx.notes.setdefault("env", set()).add("A-clock")
        return GhostClockValue(it)
    if f is _secrets.randbelow:
        it.ctx.notes.setdefault("env", set()).add("A-rng")
        (n,) = args
        k = it.ctx.fresh_int("draw")
        it.ctx.assume(z3.And(k.z >= 0, k.z < zi(n)))
        it.ctx.ghost.setdefault("draws", []).append(k)
        return k
    if f is _secrets.token_bytes:
        it.ctx.notes.setdefault("env", set()).add("A-rng")
        (n,) = args
        if not isinstance(n, int):
            raise Unsupported("token_bytes(symbolic)")
        b = it.ctx.fresh_bytes("rand", n)
        it.ctx.ghost.setdefault("draws", []).append(b)
        return b
    return NotImplemented


class GhostClockValue:
    """float returned by time.time(); only int() of it is supported."""

    def __init__(self, it):
        t = it.ctx.fresh_int("now")
        it.ctx.assume(z3.And(t.z >= 0, t.z < 2 ** 63))
        self.as_int = t


# ------------------------------------------------------------------------------------------- node (C18)

class GhostDeque(E.GhostObj):
    """collections.deque as a structural list; with rely on, another thread's append may land after any of this
    thread's operations (A-gil: one method call on the deque is atomic)."""

    def __init__(self, items, rely):
        self.items = list(items)
        self.rely = rely
        self.foreign = 0

    def _interfere(self, it):
        if self.rely and self.foreign < 1:
            self.foreign += 1
            other = ("other-peer", b"inv", -1)
            self.items.append(other)
            it.ctx.ghost.setdefault("rely_appended", []).append(other)

    def getattr(self, it, name):
        if name == "append":
            def f(it2, args, kwargs, node):
                self.items.append(args[0])
                self._interfere(it2)
            return E.GhostFn(f)
        if name == "pop":
            def f(it2, args, kwargs, node):
                if not self.items:
                    it2.raise_(IndexError, node)
                v = self.items.pop()
                self._interfere(it2)
                return v
            return E.GhostFn(f)
        if name == "popleft":
            def f(it2, args, kwargs, node):
                if not self.items:
                    it2.raise_(IndexError, node)
                v = self.items.pop(0)
                self._interfere(it2)
                return v
            return E.GhostFn(f)
        raise Unsupported(f"deque.{name}")


class GhostSendSocket(E.GhostObj):
    def __init__(self, peer):
        self.peer = peer
        self.sent = []

    def getattr(self, it, name):
        if name == "sendall":
            def f(it2, args, kwargs, node):
                self.sent.append(args[0])
            return E.GhostFn(f)
        if name == "close":
            return E.GhostFn(lambda it2, a, k, n: None)
        raise Unsupported(f"socket.{name}")


class GhostThread(E.GhostObj):
    """exit_event.is_set() is False exactly `iterations` times"""

    def __init__(self, iterations):
        self.left = iterations

    def getattr(self, it, name):
        if name == "exit_event":
            return self
        if name == "is_set":
            def f(it2, args, kwargs, node):
                self.left -= 1
                return self.left < 0
            return E.GhostFn(f)
        raise Unsupported(f"thread.{name}")


class GhostRecord(E.GhostObj):
    """`self` of a repository class: fields are ghost state, methods are the class's real functions."""

    def __init__(self, cls, fields):
        self.cls = cls
        self.fields = fields

    def getattr(self, it, name):
        if name in self.fields:
            return self.fields[name]
        import types
        f = getattr(self.cls, name, None)
        if isinstance(f, types.FunctionType):
            me = self
            return E.GhostFn(lambda it2, args, kwargs, node: it2.call(f, [me] + list(args), kwargs, node))
        it.raise_(AttributeError, None)

    def setattr(self, it, name, v):
        self.fields[name] = v


def node_iteration(it, args, kwargs, node):
    import bits.p2p as p2p
    peer_no, command, payload, queue_before = args[:4]
    rely = bool(args[4]) if len(args) > 4 else bool(kwargs.get("interfere"))
    dq = GhostDeque(queue_before, rely)
    socks = {0: GhostSendSocket(0), 1: GhostSendSocket(1)}
    rec = GhostRecord(p2p.Node, {
        "_msg_queue": dq, "_registered_commands_to_handle": [b"version", b"verack", b"ping"],
        "_peer_sockets": socks, "_peer_threads": {0: GhostThread(1), 1: GhostThread(1)}, "_peer_data": {0: {}, 1: {}},
    })
    it.ctx.ghost["node_inbox"] = (p2p.MAGIC_START_BYTES, command, payload)
    it.ctx.notes.setdefault("env", set()).add("A-gil")
    it.call(p2p.Node.recv_loop, [rec, peer_no], {}, node)
    return list(dq.items), {i: list(s.sent) for i, s in socks.items()}, rec.fields["_peer_data"]


def recv_msg_from_inbox(it, f, args, kwargs, node):
    """recv_msg by its contract C17.recv_msg: a complete, well-formed frame is returned as (magic, command, payload)."""
    box = it.ctx.ghost.get("node_inbox")
    if box is None:
        return NotImplemented
    it.ctx.notes["assumed_contracts"].add("C17.recv_msg (complete frame)")
    return box


# ------------------------------------------------------------------------------------------- file system (C19)

TRUSTED["A-fs"] = ("file-system model for one directory: os.path.exists / os.makedirs / os.listdir (any order) / "
                   "open(path, 'ab') (creates if absent, positioned at the end) / tell / write (appends) / close; "
                   "any other mode or call leaves the model (the frame obligation then fails)")


class GhostFile(E.GhostObj):
    def __init__(self, fs, name):
        self.fs = fs
        self.name = name
        self.open = True

    def getattr(self, it, attr):
        fs = self.fs
        if attr == "tell":
            return E.GhostFn(lambda it2, a, k, n: bytes_len(sym.to_vbytes(fs["files"][self.name])))
        if attr == "write":
            def f(it2, args, kwargs, node):
                if not self.open:
                    it2.raise_(ValueError, node)
                fs["files"][self.name] = sym.bytes_concat(fs["files"][self.name], args[0])
                fs["log"].append(("write", self.name, args[0]))
                return bytes_len(sym.to_vbytes(args[0]))
            return E.GhostFn(f)
        if attr == "close":
            def f(it2, args, kwargs, node):
                self.open = False
            return E.GhostFn(f)
        raise Unsupported(f"file.{attr}: outside the append-only file-system model")


def fs_run_write(it, args, kwargs, node):
    """spec.fs.run_write(files, blocks, limit, listing_order, extra_names) on the ghost file system."""
    import itertools
    import os
    import bits.p2p as p2p
    import spec
    files, blocks, limit = args[0], args[1], args[2]
    extra = list(args[4]) if len(args) > 4 else list(kwargs.get("extra_names", ()))
    names = [spec.fs.name(i) for i in range(len(files))]
    fs = {"dir": "<datadir>", "files": {n: c for n, c in zip(names, files)}, "log": [], "exists": True}
    it.ctx.ghost["fs"] = fs
    it.ctx.ghost["fs_limit"] = limit
    it.ctx.notes.setdefault("env", set()).add("A-fs")
    # os.listdir may answer in any order: fork over the permutations of the .dat names
    order = args[3] if len(args) > 3 else None
    if order is None:
        perms = list(itertools.permutations(range(len(names)))) or [()]
        k = it.ctx.fork(len(perms)) if len(perms) > 1 else 0
        order = perms[k]
    fs["listing"] = extra + [names[i] for i in order]
    it.call(p2p.write_blocks_to_disk, [list(blocks), fs["dir"]], {}, node)
    return [(n, fs["files"][n]) for n in sorted(fs["files"])]


def fs_call(it, f, args, kwargs, node):
    """os / open calls of the verified code against the ghost file system."""
    import builtins
    import os
    fs = it.ctx.ghost.get("fs")
    if fs is None:
        return NotImplemented
    if f is os.path.exists:
        return args[0] == fs["dir"] and fs["exists"] or (os.path.dirname(args[0]) == fs["dir"] and os.path.basename(args[0]) in fs["files"])
    if f is os.makedirs:
        fs["exists"] = True
        return None
    if f is os.listdir:
        if args[0] != fs["dir"]:
            raise Unsupported("listdir outside the modelled directory")
        return list(fs["listing"])
    if f is builtins.open:
        path = args[0]
        mode = args[1] if len(args) > 1 else kwargs.get("mode", "r")
        if mode != "ab":
            raise E.FrameViolation(f"open(..., {mode!r}): only append mode keeps earlier bytes unmodified")
        if not isinstance(path, str) or os.path.dirname(path) != fs["dir"]:
            raise Unsupported("open outside the modelled directory")
        name = os.path.basename(path)
        if name not in fs["files"]:
            fs["files"][name] = b""
            fs["log"].append(("create", name))
        return GhostFile(fs, name)
    return NotImplemented


# ------------------------------------------------------------------------------------------- configuration (C20)

class GhostConfigFile(E.GhostObj):
    def __init__(self, kind):
        self.kind = kind


def config_call(it, f, args, kwargs, node):
    """os.path.exists / open / json.load / tomllib.load of Config.load_config against the ghost config directory."""
    import builtins
    import json
    import os
    cfg = it.ctx.ghost.get("cfgdir")
    if cfg is None:
        return NotImplemented
    if f is os.path.exists:
        base = os.path.basename(args[0])
        if base == "config.toml":
            return cfg["toml"] is not None
        if base == "config.json":
            return cfg["json"] is not None
        raise Unsupported(f"exists({args[0]!r}) outside the modelled configuration directory")
    if f is builtins.open:
        base = os.path.basename(args[0])
        mode = args[1] if len(args) > 1 else kwargs.get("mode", "r")
        if "w" in mode or "a" in mode or "+" in mode:
            raise E.FrameViolation(f"open({base!r}, {mode!r}): configuration files are only read")
        if base == "config.toml" and cfg["toml"] is not None:
            return GhostConfigFile("toml")
        if base == "config.json" and cfg["json"] is not None:
            return GhostConfigFile("json")
        it.raise_(FileNotFoundError, node)
    if f is json.load and isinstance(args[0], GhostConfigFile):
        if args[0].kind != "json":
            it.raise_(ValueError, node)
        return dict(cfg["json"])
    try:
        import tomllib
        if f is tomllib.load and isinstance(args[0], GhostConfigFile):
            if args[0].kind != "toml":
                it.raise_(ValueError, node)
            return dict(cfg["toml"])
    except ImportError:
        pass
    return NotImplemented


def effective_config(it, args, kwargs, node):
    import bits.config as bc
    a, fj, ft, e = args
    it.ctx.ghost["cfgdir"] = {"json": fj, "toml": ft}
    it.ctx.notes.setdefault("env", set()).add("A-fs")
    rec = GhostRecord(bc.Config, {})
    it.call(bc.Config.__init__, [rec], dict(a), node)
    it.call(bc.Config.load_config, [rec, "<configdir>"], {}, node)
    it.call(bc.Config.update, [rec], dict(e), node)
    return dict(rec.fields)
