"""Environment models with contracts instead of bodies (DESIGN.md 2.4): socket, clock, RNG."""
import time as _time
import secrets as _secrets

import z3

from . import sym
from .sym import VInt, VBytes, Chunk, Unsupported, mk_int, mk_bool, zi, to_vbytes, bytes_len
from . import engine as E

TRUSTED = {
    "A-sock": "socket model: recv(n), n > 0, returns the next k bytes of the stream with 1 <= k <= n while data remains "
              "and b'' exactly at end of stream; every fragmentation is a behaviour of this contract",
    "A-clock": "time.time() returns some value t with 0 <= int(t) < 2**63",
    "A-rng": "secrets.randbelow(n) returns some k with 0 <= k < n; secrets.token_bytes(n) returns some n bytes; "
             "successive draws are unrelated fresh values (recorded in the ghost list `draws`)",
}


class GhostSocket(E.GhostObj):
    def __init__(self, it, stream):
        g = it.ctx.ghost
        g["ghost_stream"] = stream
        g["ghost_pos"] = 0
        g["ghost_recv_calls"] = 0
        it.ctx.notes.setdefault("env", set()).add("A-sock")

    def getattr(self, it, name):
        if name == "recv":
            return E.GhostFn(self.recv)
        if name == "pos":
            return it.ctx.ghost["ghost_pos"]
        raise Unsupported(f"socket attribute {name}")

    def recv(self, it, args, kwargs, node):
        ctx = it.ctx
        g = ctx.ghost
        (n,) = args
        # precondition of recv: a positive buffer size (recv(0) returns b'' forever; negative raises)
        ctx.oblige(f"{ctx.opts['thm'].name}.call.sock.recv.pre", mk_bool(zi(n) > 0) if not isinstance(n, int) else n > 0,
                   {"kind": "call-pre", "clause": "recv(bufsize): bufsize > 0"})
        if isinstance(n, int):
            if n <= 0:
                raise Unsupported("recv with non-positive size")
        else:
            ctx.assume(zi(n) > 0)
        stream = to_vbytes(g["ghost_stream"])
        pos = g["ghost_pos"]
        c = ctx.fresh_bytes("chunk")
        cz = c.chunks[0].z
        ln = z3.Length(cz)
        total = zi(bytes_len(stream))
        ctx.assume(z3.And(ln >= 0, ln <= zi(n), ln <= total - zi(pos)))
        ctx.assume(z3.Implies(zi(pos) < total, ln >= 1))
        ctx.assume(cz == z3.Extract(stream.z, zi(pos), ln))
        g["ghost_pos"] = mk_int(zi(pos) + ln)
        return c


def try_call(it, f, args, kwargs, node):
    import spec.p2p as sp
    if f is sp.FakeSocket:
        return GhostSocket(it, args[0])
    if f is _time.time:
        it.ctx.notes.setdefault("env", set()).add("A-clock")
        return GhostClockValue(it)
    if f is _secrets.randbelow:
        it.ctx.notes.setdefault("env", set()).add("A-rng")
        (n,) = args
        k = it.ctx.fresh_int("draw")
        it.ctx.assume(z3.And(k.z >= 0, k.z < zi(n)))
        it.ctx.ghost.setdefault("draws", []).append(k)
        return k
    if f is _secrets.token_bytes:
        it.ctx.notes.setdefault("env", set()).add("A-rng")
        (n,) = args
        if not isinstance(n, int):
            raise Unsupported("token_bytes(symbolic)")
        b = it.ctx.fresh_bytes("rand", n)
        it.ctx.ghost.setdefault("draws", []).append(b)
        return b
    return NotImplemented


class GhostClockValue:
    """float returned by time.time(); only int() of it is supported."""

    def __init__(self, it):
        t = it.ctx.fresh_int("now")
        it.ctx.assume(z3.And(t.z >= 0, t.z < 2 ** 63))
        self.as_int = t
