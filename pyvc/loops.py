"""Cut-point treatment of loops that carry an invariant (init / preserve / exit / variant obligations)."""
import ast

import z3

from .sym import VInt, VBool, VBytes, VSeq, VHex, Unsupported, mk_int, mk_bool, zi, is_sym
from . import engine as E


def assigned_names(stmts):
    names = []

    def tgt(t):
        if isinstance(t, ast.Name):
            names.append(t.id)
        elif isinstance(t, (ast.Tuple, ast.List)):
            for x in t.elts:
                tgt(x)
        elif isinstance(t, ast.Subscript):
            b = t.value
            while isinstance(b, ast.Subscript):
                b = b.value
            if isinstance(b, ast.Name):
                names.append(b.id)
        elif isinstance(t, ast.Starred):
            tgt(t.value)

    for node in ast.walk(ast.Module(body=list(stmts), type_ignores=[])):
        if isinstance(node, ast.Assign):
            for t in node.targets:
                tgt(t)
        elif isinstance(node, (ast.AugAssign, ast.AnnAssign)):
            tgt(node.target)
        elif isinstance(node, ast.For):
            tgt(node.target)
        elif isinstance(node, ast.Call) and isinstance(node.func, ast.Attribute) and isinstance(node.func.value, ast.Name):
            if node.func.attr in ("append", "extend", "update", "pop", "insert", "clear", "setdefault"):
                names.append(node.func.value.id)
        elif isinstance(node, ast.NamedExpr):
            tgt(node.target)
    out = []
    for n in names:
        if n not in out:
            out.append(n)
    return out


def fresh_like(it, name, v, hint):
    from . import verify
    ctx = it.ctx
    if hint is not None:
        return verify.make_param(ctx, name, hint, [])
    if isinstance(v, bool) or isinstance(v, VBool):
        return ctx.fresh_bool(name)
    if isinstance(v, (int, VInt)):
        return ctx.fresh_int(name)
    if isinstance(v, (bytes, VBytes)):
        return ctx.fresh_bytes(name)
    if isinstance(v, VSeq):
        z = z3.Const(ctx.fresh_name(name), v.z.sort())
        return VSeq(z, v.elem, v.elen)
    if isinstance(v, tuple) and all(isinstance(x, (int, VInt)) and not isinstance(x, bool) for x in v):
        return tuple(ctx.fresh_int(f"{name}_{i}") for i in range(len(v)))
    if isinstance(v, VHex):
        return VHex(ctx.fresh_bytes(name))
    raise Unsupported(f"loop-carried variable {name!r} of type {type(v).__name__} needs a type in the loop contract")


def _loop_name(it, s, fr):
    return f"{fr.qual}.loop{it._loop_ordinal(s, fr)}"


def _assert_inv(it, spec, fr, name, thm_name):
    from . import verify
    for i, inv in enumerate(spec.invariant):
        f = verify.formula(it, inv, fr)
        it.ctx.oblige(f"{thm_name}.{name}.inv{i}", f, {"kind": "loop", "clause": inv})


def _assume_inv(it, spec, fr):
    from . import verify
    for inv in spec.invariant:
        it.ctx.assume(verify.formula(it, inv, fr))


def _havoc(it, s, fr, spec):
    for n, ty in spec.types.items():
        if n.startswith("ghost_"):
            from . import verify
            it.ctx.ghost[n] = verify.make_param(it.ctx, n, ty, [])
    for n in assigned_names(s.body):
        if n in fr.locals:
            fr.locals[n] = fresh_like(it, n, fr.locals[n], spec.types.get(n))
        elif n in spec.types:
            fr.locals[n] = fresh_like(it, n, None, spec.types[n])


def _lets(it, spec, fr):
    from . import verify
    for k, src in spec.lets.items():
        fr.locals[k] = verify.value_of(it, src, fr)


def cut_while(it, s, fr, spec):
    from . import verify
    ctx = it.ctx
    thm = ctx.opts["thm"].name
    name = _loop_name(it, s, fr)
    _lets(it, spec, fr)
    _assert_inv(it, spec, fr, name + ".init", thm)
    mode = ctx.fork(2)
    _havoc(it, s, fr, spec)
    _assume_inv(it, spec, fr)
    g = it.truth(it.eval(s.test, fr))
    if mode == 0:
        ctx.assume((not g) if isinstance(g, bool) else z3.Not(g.z))
        return
    ctx.assume(g)
    d0 = verify.value_of(it, spec.decreases, fr) if spec.decreases else None
    try:
        it.exec_block(s.body, fr)
    except E.BreakSig:
        return
    except E.ContinueSig:
        pass
    _assert_inv(it, spec, fr, name + ".preserve", thm)
    if d0 is not None:
        d1 = verify.value_of(it, spec.decreases, fr)
        ctx.oblige(f"{thm}.{name}.variant", z3.And(zi(d0) >= 0, zi(d1) < zi(d0)),
                   {"kind": "loop", "clause": f"decreases {spec.decreases}"})
    raise E.StopPath()


def cut_for(it, s, fr, spec, iterable):
    ctx = it.ctx
    thm = ctx.opts["thm"].name
    name = _loop_name(it, s, fr)
    vals = it.iter_values(iterable, s)
    if vals is not None:
        n = len(vals)

        def getter(k):
            return it.index(vals, k, s)
    else:
        n, getter = it.sym_iter(iterable, s)
    _lets(it, spec, fr)
    fr.locals["_k"] = 0
    fr.locals["_n"] = n
    _assert_inv(it, spec, fr, name + ".init", thm)
    mode = ctx.fork(2)
    _havoc(it, s, fr, spec)
    k = ctx.fresh_int("_k")
    ctx.assume(k.z >= 0)
    if mode == 0:
        ctx.assume(k.z == zi(n))
        fr.locals["_k"] = n
        _assume_inv(it, spec, fr)
        return
    ctx.assume(k.z < zi(n))
    fr.locals["_k"] = k
    _assume_inv(it, spec, fr)
    it.assign(s.target, getter(k), fr)
    try:
        it.exec_block(s.body, fr)
    except E.BreakSig:
        return
    except E.ContinueSig:
        pass
    fr.locals["_k"] = mk_int(k.z + 1)
    _assert_inv(it, spec, fr, name + ".preserve", thm)
    raise E.StopPath()


E.Interp.cut_while = lambda self, s, fr, spec: cut_while(self, s, fr, spec)
E.Interp.cut_for = lambda self, s, fr, spec, itb: cut_for(self, s, fr, spec, itb)
