"""Operator, builtin and stdlib models (the trusted semantics of CPython used by the engine)."""
import ast
import builtins
import copy as _copy
import hashlib
import hmac as _hmac
import types

import z3

from . import sym
from .sym import VWord, VPhrase, VStr, zstr
import unicodedata as _ud
from .sym import (VInt, VBool, VBytes, VSeq, VHex, VOpaque, Unsupported, Chunk,
                  zi, zb, mk_int, mk_bool, is_sym, to_vbytes, norm_bytes, bytes_concat,
                  bytes_len, chunk_slice, IntS, BoolS, BytesS, LBytesS, seqlit)
from .axioms import pow_term


def _eng():
    from . import engine
    return engine


def is_int(v):
    return isinstance(v, (int, VInt, VBool)) and not isinstance(v, float)


def is_bytes(v):
    return isinstance(v, (bytes, VBytes))


def is_pow2(n):
    return n > 0 and (n & (n - 1)) == 0


# ------------------------------------------------------------------------------ binop

def binop(it, op, a, b, node):
    if not is_sym(a) and not is_sym(b):
        try:
            return _native_binop(op, a, b)
        except ZeroDivisionError:
            it.raise_(ZeroDivisionError, node)
        except TypeError:
            it.raise_(TypeError, node)
        except OverflowError:
            it.raise_(OverflowError, node)
    if is_int(a) and is_int(b):
        return int_binop(it, op, a, b, node)
    if is_bytes(a) and is_bytes(b) and isinstance(op, ast.Add):
        return bytes_concat(a, b)
    if is_bytes(a) and is_int(b) and isinstance(op, ast.Mult):
        return bytes_repeat(it, a, b, node)
    if is_int(a) and is_bytes(b) and isinstance(op, ast.Mult):
        return bytes_repeat(it, b, a, node)
    if (isinstance(a, VStr) or isinstance(b, VStr)) and isinstance(a, (str, VStr)) and isinstance(b, (str, VStr)) \
            and isinstance(op, ast.Add):
        return VStr(z3.Concat(zstr(a), zstr(b)))
    if isinstance(a, (str, VHex, VOpaque)) and isinstance(b, (str, VHex, VOpaque)) and isinstance(op, ast.Add):
        if isinstance(a, VHex) and isinstance(b, VHex):
            return VHex(bytes_concat(a.b, b.b))
        return VOpaque()
    if isinstance(a, list) and isinstance(b, list) and isinstance(op, ast.Add):
        return a + b
    if isinstance(a, (list, VSeq)) and isinstance(b, (list, VSeq)) and isinstance(op, ast.Add):
        sa, sb = to_vseq(it, a, like=b if isinstance(b, VSeq) else a), to_vseq(it, b, like=a if isinstance(a, VSeq) else b)
        return VSeq(z3.Concat(sa.z, sb.z), sa.elem, sa.elen if sa.elen == sb.elen else None)
    if isinstance(a, dict) and isinstance(b, dict) and isinstance(op, ast.BitOr):
        return {**a, **b}
    if a is None or b is None:
        it.raise_(TypeError, node)
    if isinstance(a, float) or isinstance(b, float):
        raise Unsupported("float arithmetic on symbolic value")
    raise Unsupported(f"binop {type(op).__name__} on {type(a).__name__}, {type(b).__name__}")


def _native_binop(op, a, b):
    import operator
    table = {ast.Add: operator.add, ast.Sub: operator.sub, ast.Mult: operator.mul,
             ast.FloorDiv: operator.floordiv, ast.Mod: operator.mod, ast.Pow: operator.pow,
             ast.LShift: operator.lshift, ast.RShift: operator.rshift, ast.BitAnd: operator.and_,
             ast.BitOr: operator.or_, ast.BitXor: operator.xor, ast.Div: operator.truediv}
    return table[type(op)](a, b)


def to_vseq(it, v, like=None):
    if isinstance(v, VSeq):
        return v
    if isinstance(v, (list, tuple)):
        elem = like.elem if isinstance(like, VSeq) else None
        if elem is None:
            if all(is_int(x) for x in v) and v:
                elem = "int"
            elif all(is_bytes(x) for x in v) and v:
                elem = "bytes"
            else:
                raise Unsupported("cannot type list as sequence")
        if elem == "int":
            if not v:
                return VSeq(z3.Empty(BytesS), "int")
            units = [z3.Unit(zi(x)) for x in v]
            return VSeq(units[0] if len(units) == 1 else z3.Concat(*units), "int")
        if not v:
            return VSeq(z3.Empty(LBytesS), "bytes", like.elen if isinstance(like, VSeq) else None)
        units = [z3.Unit(to_vbytes(x).z) for x in v]
        lens = {to_vbytes(x).klen() for x in v}
        elen = lens.pop() if len(lens) == 1 else None
        return VSeq(units[0] if len(units) == 1 else z3.Concat(*units), "bytes", elen)
    raise Unsupported(f"not a list: {type(v).__name__}")


def bytes_repeat(it, b, n, node):
    if isinstance(n, int):
        if n <= 0:
            return b""
        if n <= 64:
            out = b
            for _ in range(n - 1):
                out = bytes_concat(out, b)
            return out
    bb = to_vbytes(b)
    if bb.klen() == 1 and bb.chunks[0].lit is not None:
        c = bb.chunks[0].lit[0]
        f = sym.uf("brep", IntS, IntS, BytesS)
        z = f(z3.IntVal(c), zi(n))
        return VBytes([Chunk(z, None)])
    raise Unsupported("bytes * symbolic int")


def int_binop(it, op, a, b, node):
    za, zb_ = zi(a), zi(b)
    t = type(op)
    if t is ast.Add:
        return mk_int(za + zb_)
    if t is ast.Sub:
        return mk_int(za - zb_)
    if t is ast.Mult:
        return mk_int(za * zb_)
    if t in (ast.FloorDiv, ast.Mod):
        if isinstance(b, int):
            if b == 0:
                it.raise_(ZeroDivisionError, node)
            if b < 0:
                raise Unsupported("division by negative constant")
        else:
            if it.ctx.decide(mk_bool(zb_ == 0)):
                it.raise_(ZeroDivisionError, node)
            if not it.ctx.valid(zb_ > 0):
                raise Unsupported("division by possibly negative value")
        if isinstance(b, int) and t is ast.Mod:
            s0 = strip_mod(za, b)
            sz = z3.simplify(s0)
            if not z3.is_int_value(sz) and b > 2 ** 64:
                # field-sized modulus: replace the reduction by its value when the path condition bounds the
                # (canonicalised) operand, so that e.g. p - y, (0 - y) % p and (p - y) % p all become the same term
                if it.ctx.valid(z3.And(s0 >= 0, s0 < b)):
                    return mk_int(s0)
                if it.ctx.valid(z3.And(s0 >= -b, s0 < 0)):
                    return mk_int(s0 + b)
                if it.ctx.valid(z3.And(s0 > -b, s0 <= 0)):
                    return mk_int(z3.If(s0 == 0, z3.IntVal(0), s0 + b))
            return mk_int(sz % zb_)
        if not isinstance(b, int):
            # non-constant divisor: uninterpreted quotient/remainder tied together by the division identity
            return mk_int(sym.F_idiv(za, zb_)) if t is ast.FloorDiv else mk_int(sym.F_imod(za, zb_))
        return mk_int(za / zb_) if t is ast.FloorDiv else mk_int(za % zb_)
    if t is ast.Pow:
        if isinstance(b, int):
            if b < 0:
                raise Unsupported("negative exponent")
            if b <= 4:
                r = z3.IntVal(1)
                for _ in range(b):
                    r = r * za
                return mk_int(r)
            raise Unsupported("large constant exponent of symbolic base")
        if not it.ctx.valid(zb_ >= 0):
            raise Unsupported("possibly negative exponent")
        return mk_int(pow_term(a if isinstance(a, int) else za, zb_))
    if t is ast.LShift:
        _need_nonneg(it, b, zb_, node)
        return mk_int(za * pow_term(2, zb_))
    if t is ast.RShift:
        _need_nonneg(it, b, zb_, node)
        pw = pow_term(2, zb_)
        if z3.is_int_value(z3.simplify(pw)):
            return mk_int(za / pw)
        return mk_int(sym.F_idiv(za, pw))
    if t is ast.BitAnd:
        return bit_and(it, a, b, za, zb_)
    if t is ast.BitOr:
        return bit_or(it, a, b, za, zb_)
    if t is ast.BitXor:
        return bit_xor(it, a, b, za, zb_)
    if t is ast.Div:
        raise Unsupported("true division on symbolic ints")
    raise Unsupported(f"int op {t.__name__}")


def strip_mod(z, m):
    """(.. (t % m) ..) % m == (.. t ..) % m for sums, differences and products: canonical form of modular expressions."""
    z = z3.simplify(z)
    if z3.is_int_value(z):
        v = z.as_long() % m                     # constants are reduced to the residue of least absolute value,
        return z3.IntVal(v - m if v > m // 2 else v)   # so that p - y, -y and (p-1)*y all take the form -y
    if z3.is_app_of(z, z3.Z3_OP_MOD) and z3.is_int_value(z.arg(1)) and z.arg(1).as_long() == m:
        return strip_mod(z.arg(0), m)
    if z3.is_app_of(z, z3.Z3_OP_ADD):
        return z3.Sum([strip_mod(c, m) for c in z.children()])
    if z3.is_app_of(z, z3.Z3_OP_SUB):
        ch = [strip_mod(c, m) for c in z.children()]
        r = ch[0]
        for c in ch[1:]:
            r = r - c
        return r
    if z3.is_app_of(z, z3.Z3_OP_MUL):
        return z3.Product([strip_mod(c, m) for c in z.children()])
    if z3.is_app_of(z, z3.Z3_OP_UMINUS):
        return -strip_mod(z.arg(0), m)
    return z


def _need_nonneg(it, b, zb_, node):
    if isinstance(b, int):
        if b < 0:
            it.raise_(ValueError, node)
        return
    if it.ctx.decide(mk_bool(zb_ < 0)):
        it.raise_(ValueError, node)


def bit_and(it, a, b, za, zb_):
    # mask 2**k - 1  ->  mod ; single bit 2**k  ->  ((x div 2**k) mod 2) * 2**k
    for x, zx, m in ((a, za, b), (b, zb_, a)):
        if isinstance(m, int) and m >= 0:
            if m == 0:
                return 0
            if is_pow2(m + 1):
                if m + 1 <= 2 ** 16 and it.ctx.valid(z3.And(zx >= 0, zx <= m)):
                    return mk_int(zx)             # the mask covers the whole (small) value
                return mk_int(zx % (m + 1))
            if is_pow2(m):
                return mk_int(((zx / m) % 2) * m)
            # contiguous run of ones: (x div 2**lo mod 2**w) * 2**lo
            lo = (m & -m).bit_length() - 1
            if is_pow2((m >> lo) + 1):
                w = (m >> lo).bit_length()
                if lo + w <= 16 and it.ctx.valid(z3.And(zx >= 0, zx < 2 ** (lo + w))):
                    return mk_int((zx / (2 ** lo)) * (2 ** lo))     # no bits above the mask
                return mk_int(((zx / (2 ** lo)) % (2 ** w)) * (2 ** lo))
    # x & 2**k with symbolic k
    for zx, zm in ((za, zb_), (zb_, za)):
        if z3.is_app(zm) and zm.decl().name() == "ipow" and z3.is_int_value(zm.arg(0)) and zm.arg(0).as_long() == 2:
            return mk_int(((zx / zm) % 2) * zm)
    it.ctx.notes.setdefault("bitops", set()).add("bitand")
    return mk_int(sym.F_bitand(za, zb_))


def bit_or(it, a, b, za, zb_):
    # x | y == x + y when the operands provably share no bits: y < 2**k and 2**k | x
    for (x, zx), (y, zy) in (((a, za), (b, zb_)), ((b, zb_), (a, za))):
        # y = c * 2**k (a left shift by a constant): disjoint from x when 0 <= x < 2**k
        ys = z3.simplify(zy)
        if z3.is_app_of(ys, z3.Z3_OP_MUL) and len(ys.children()) == 2 and z3.is_int_value(ys.arg(0)):
            c = ys.arg(0).as_long()
            if c > 0 and is_pow2(c) and it.ctx.valid(z3.And(zx >= 0, zx < c, ys.arg(1) >= 0)):
                return mk_int(zx + zy)
        for k in (1, 2, 3, 4, 5, 6, 7, 8, 11, 16, 32):
            if it.ctx.valid(z3.And(zy >= 0, zy < 2 ** k, zx % (2 ** k) == 0, zx >= 0)):
                return mk_int(zx + zy)
    return mk_int(sym.F_bitor(za, zb_))


def bit_xor(it, a, b, za, zb_):
    return mk_int(sym.F_bitxor(za, zb_))


# ------------------------------------------------------------------------------ compare

def sym_eq(it, a, b):
    """Python == as bool / VBool."""
    if not is_sym(a) and not is_sym(b):
        return a == b
    if is_int(a) and is_int(b):
        return mk_bool(zi(a) == zi(b))
    if isinstance(a, (bool, VBool)) and isinstance(b, (bool, VBool)):
        return mk_bool(zb(a) == zb(b))
    if is_bytes(a) and is_bytes(b):
        la, lb = bytes_len(a), bytes_len(b)
        if isinstance(la, int) and isinstance(lb, int) and la != lb:
            return False
        return mk_bool(to_vbytes(a).z == to_vbytes(b).z)
    if isinstance(a, VStr) or isinstance(b, VStr):
        if isinstance(a, (str, VStr)) and isinstance(b, (str, VStr)):
            return mk_bool(zstr(a) == zstr(b))
        return False
    if isinstance(a, VWord) or isinstance(b, VWord):
        if isinstance(a, VWord) and isinstance(b, VWord) and a.words == b.words:
            return mk_bool(zi(a.i) == zi(b.i))
        w, o = (a, b) if isinstance(a, VWord) else (b, a)
        if isinstance(o, str):
            return mk_bool(zi(w.i) == w.words.index(o)) if o in w.words else False
        return False
    if isinstance(a, VPhrase) or isinstance(b, VPhrase):
        pa = a.items if isinstance(a, VPhrase) else (a.split(" ") if isinstance(a, str) else None)
        pb = b.items if isinstance(b, VPhrase) else (b.split(" ") if isinstance(b, str) else None)
        if pa is None or pb is None or len(pa) != len(pb):
            return False
        return sym_eq(it, list(pa), list(pb))
    if isinstance(a, VHex) or isinstance(b, VHex):
        if isinstance(a, VHex) and isinstance(b, VHex):
            return sym_eq(it, a.b, b.b)
        h, o = (a, b) if isinstance(a, VHex) else (b, a)
        if isinstance(o, str):
            try:
                ob = bytes.fromhex(o)
            except ValueError:
                return False
            if o != ob.hex():
                return False
            return sym_eq(it, h.b, ob)
        return False
    if isinstance(a, (tuple, list)) and isinstance(b, (tuple, list)):
        if type(a) is not type(b) or len(a) != len(b):
            return False
        r = True
        for x, y in zip(a, b):
            r = it.and_(r, sym_eq(it, x, y))
            if r is False:
                return False
        return r
    if isinstance(a, dict) and isinstance(b, dict):
        if set(a.keys()) != set(b.keys()):
            return False
        r = True
        for k in a:
            r = it.and_(r, sym_eq(it, a[k], b[k]))
            if r is False:
                return False
        return r
    if isinstance(a, VSeq) or isinstance(b, VSeq):
        if isinstance(a, (VSeq, list)) and isinstance(b, (VSeq, list)):
            sa = to_vseq(it, a, like=b if isinstance(b, VSeq) else None)
            sb = to_vseq(it, b, like=a if isinstance(a, VSeq) else None)
            if sa.elem != sb.elem:
                return False
            return mk_bool(sa.z == sb.z)
        return False
    if a is None or b is None:
        return a is b
    if isinstance(a, VOpaque) or isinstance(b, VOpaque):
        raise Unsupported("comparison of an opaque string")
    # different kinds never compare equal in Python (int vs bytes, str vs bytes, ...)
    ka, kb = _kind(a), _kind(b)
    if ka != kb:
        return False
    raise Unsupported(f"equality on {type(a).__name__}, {type(b).__name__}")


def _kind(v):
    if is_int(v):
        return "int"
    if is_bytes(v):
        return "bytes"
    if isinstance(v, (str, VHex, VOpaque)):
        return "str"
    if isinstance(v, (list, VSeq)):
        return "list"
    return type(v).__name__


def compare(it, op, a, b, node):
    t = type(op)
    if t is ast.Is or t is ast.IsNot:
        if is_sym(a) or is_sym(b):
            if a is None or b is None:
                r = False
            elif isinstance(a, type) or isinstance(b, type):
                r = False
            else:
                raise Unsupported("'is' on symbolic values")
        else:
            r = a is b
            if isinstance(a, (int, str, bytes)) and isinstance(b, (int, str, bytes)) and not isinstance(a, bool) and not isinstance(b, bool):
                r = (a == b) and type(a) is type(b)
        return r if t is ast.Is else (not r)
    if t is ast.Eq or t is ast.NotEq:
        r = sym_eq(it, a, b)
        if t is ast.Eq:
            return r
        return (not r) if isinstance(r, bool) else mk_bool(z3.Not(r.z))
    if t is ast.In or t is ast.NotIn:
        r = contains(it, b, a, node)
        if t is ast.In:
            return r
        return (not r) if isinstance(r, bool) else mk_bool(z3.Not(r.z))
    if not is_sym(a) and not is_sym(b):
        import operator
        try:
            return {ast.Lt: operator.lt, ast.LtE: operator.le, ast.Gt: operator.gt, ast.GtE: operator.ge}[t](a, b)
        except TypeError:
            it.raise_(TypeError, node)
    if is_int(a) and is_int(b):
        za, zb_ = zi(a), zi(b)
        return mk_bool({ast.Lt: za < zb_, ast.LtE: za <= zb_, ast.Gt: za > zb_, ast.GtE: za >= zb_}[t])
    if a is None or b is None:
        it.raise_(TypeError, node)
    raise Unsupported(f"ordering on {type(a).__name__}, {type(b).__name__}")


def contains(it, container, x, node):
    if isinstance(container, range):
        if not is_int(x):
            return False
        if container.step != 1:
            raise Unsupported("range step in membership")
        if isinstance(x, int):
            return x in container
        return mk_bool(z3.And(zi(x) >= container.start, zi(x) < container.stop))
    if isinstance(container, IterRange):
        if not is_int(x):
            return False
        return mk_bool(z3.And(zi(x) >= zi(container.start), zi(x) < zi(container.stop)))
    if isinstance(container, (list, tuple)):
        r = False
        for c in container:
            e = sym_eq(it, x, c)
            if e is True:
                return True
            if e is False:
                continue
            r = e if r is False else mk_bool(z3.Or(r.z, e.z))
        return r
    if isinstance(container, dict):
        if is_sym(x):
            return contains(it, list(container.keys()), x, node)
        return x in container
    if is_bytes(container):
        if is_int(x):
            if isinstance(container, bytes):
                vals = sorted(set(container))
                if isinstance(x, int):
                    return x in container
                return mk_bool(z3.Or(*[zi(x) == v for v in vals])) if vals else False
            raise Unsupported("int in symbolic bytes")
        if is_bytes(x):
            if not is_sym(container) and not is_sym(x):
                return x in container
            xl = bytes_len(x)
            if isinstance(container, bytes) and xl == 1:
                # one-byte needle in a concrete haystack: membership of its byte value
                bz = to_vbytes(x).z[0]
                vals = sorted(set(container))
                return mk_bool(z3.Or(*[bz == v for v in vals])) if vals else False
            return mk_bool(z3.Contains(to_vbytes(container).z, to_vbytes(x).z))
        it.raise_(TypeError, node)
    if isinstance(container, str):
        if isinstance(x, str):
            return x in container
        raise Unsupported("symbolic str membership")
    if isinstance(container, VSeq):
        if container.elem == "int" and is_int(x):
            return mk_bool(z3.Contains(container.z, z3.Unit(zi(x))))
        if container.elem == "bytes" and is_bytes(x):
            return mk_bool(z3.Contains(container.z, z3.Unit(to_vbytes(x).z)))
        return False
    raise Unsupported(f"membership in {type(container).__name__}")


class IterRange:
    def __init__(self, start, stop, step):
        self.start, self.stop, self.step = start, stop, step


# ------------------------------------------------------------------------------ index / slice

def index(it, base, idx, node, checked=True):
    if isinstance(base, dict):
        if is_sym(idx):
            return dict_lookup(it, base, idx, node)
        try:
            return base[idx]
        except KeyError:
            it.raise_(KeyError, node)
        except TypeError:
            it.raise_(TypeError, node)
    if base is None:
        it.raise_(TypeError, node)
    if isinstance(base, (list, tuple, str)):
        if isinstance(idx, int):
            try:
                return base[idx]
            except IndexError:
                it.raise_(IndexError, node)
        if isinstance(idx, VInt) and isinstance(base, list) and len(base) >= 256 and _is_wordlist(base):
            # element of a large table of distinct words: kept abstract (its index), no 2048-way case split
            if not it.ctx.decide(mk_bool(z3.And(idx.z >= -len(base), idx.z < len(base)))):
                it.raise_(IndexError, node)
            if not it.ctx.valid(idx.z >= 0):
                raise Unsupported("negative symbolic index into a word list")
            return VWord(idx, base)
        if isinstance(idx, VInt):
            n = len(base)
            v = it.enumerate_int(idx, max(64, 2 * n + 2))
            if v is None:
                raise Unsupported("symbolic index into concrete list")
            try:
                return base[v]
            except IndexError:
                it.raise_(IndexError, node)
        it.raise_(TypeError, node)
    if isinstance(base, bytes) and isinstance(idx, int):
        try:
            return base[idx]
        except IndexError:
            it.raise_(IndexError, node)
    if is_bytes(base):
        if not is_int(idx):
            it.raise_(TypeError, node)
        vb = refine_len(it, to_vbytes(base))
        n = bytes_len(vb)
        if isinstance(idx, int) and idx < 0:
            idx = mk_int(zi(n) + idx)
        if checked:
            ok = mk_bool(z3.And(zi(idx) >= 0, zi(idx) < zi(n)))
            if not it.ctx.decide(ok):
                it.raise_(IndexError, node)
        # structural resolution for concrete index
        if isinstance(idx, int):
            pos = 0
            for c in vb.chunks:
                if c.n is None:
                    break
                if idx < pos + c.n:
                    if c.lit is not None:
                        return c.lit[idx - pos]
                    z = z3.simplify(c.z[idx - pos])
                    return byte_val(it, z)
                pos += c.n
        z = z3.simplify(vb.z[zi(idx)])
        return byte_val(it, z)
    if isinstance(base, VSeq):
        n = mk_int(z3.Length(base.z))
        if isinstance(idx, int) and idx < 0:
            idx = mk_int(zi(n) + idx)
        if checked:
            ok = mk_bool(z3.And(zi(idx) >= 0, zi(idx) < zi(n)))
            if not it.ctx.decide(ok):
                it.raise_(IndexError, node)
        return it.seq_index(base, idx)
    if isinstance(base, VHex):
        raise Unsupported("indexing a hex string")
    raise Unsupported(f"index on {type(base).__name__}")


_WL = {}


def _is_wordlist(lst):
    """ground facts about a concrete table: all entries are non-empty, whitespace-free, pairwise distinct strings"""
    k = id(lst)
    r = _WL.get(k)
    if r is None or r[0] is not lst:
        ok = all(isinstance(w, str) and w and not any(c.isspace() for c in w) for w in lst) and len(set(lst)) == len(lst)
        _WL[k] = (lst, ok)
        return ok
    return r[1]


def byte_val(it, z):
    if z3.is_int_value(z):
        return z.as_long()
    it.ctx.assume_type(z3.And(z >= 0, z < 256))   # type invariant of bytes (trusted: byte-range)
    it.ctx.ax.used.add("byte-range")
    return VInt(z)


def dict_lookup(it, d, k, node):
    """Concrete dict (module table) indexed by a symbolic key: exact ite chain + KeyError guard."""
    keys = list(d.keys())
    if not keys:
        it.raise_(KeyError, node)
    if all(isinstance(x, int) for x in keys) and is_int(k):
        kz = zi(k)
        present = mk_bool(z3.Or(*[kz == x for x in keys]))
        if not it.ctx.decide(present):
            it.raise_(KeyError, node)
        vals = [d[x] for x in keys]
        return ite_chain(it, [(kz == x) for x in keys], vals)
    if all(isinstance(x, bytes) for x in keys) and is_bytes(k):
        kz = to_vbytes(k).z
        lens = {len(x) for x in keys}
        if lens == {1} and bytes_len(k) == 1:
            b0 = z3.simplify(kz[0])
            present = mk_bool(z3.Or(*[b0 == x[0] for x in keys]))
            if not it.ctx.decide(present):
                it.raise_(KeyError, node)
            return ite_chain(it, [(b0 == x[0]) for x in keys], [d[x] for x in keys])
        present = mk_bool(z3.Or(*[kz == seqlit(x) for x in keys]))
        if not it.ctx.decide(present):
            it.raise_(KeyError, node)
        return ite_chain(it, [(kz == seqlit(x)) for x in keys], [d[x] for x in keys])
    if all(isinstance(x, str) for x in keys) and isinstance(k, VHex):
        it.raise_(KeyError, node) if not any(_is_hex(x) for x in keys) else None
        raise Unsupported("hex-string key into str table")
    raise Unsupported("symbolic dict key")


def _is_hex(s):
    try:
        return bytes.fromhex(s).hex() == s
    except ValueError:
        return False


def ite_chain(it, conds, vals):
    if all(isinstance(v, int) and not isinstance(v, bool) for v in vals):
        r = z3.IntVal(vals[-1])
        for c, v in zip(reversed(conds[:-1]), reversed(vals[:-1])):
            r = z3.If(c, z3.IntVal(v), r)
        return mk_int(r)
    # non-int values: fork
    for c, v in zip(conds[:-1], vals[:-1]):
        if it.ctx.decide(mk_bool(c)):
            return v
    it.ctx.assume(conds[-1])
    return vals[-1]


def _norm_bound(it, v, n, default):
    """Clamp a slice bound like CPython: returns z3 int term in [0, n]."""
    nz = zi(n)
    if v is None:
        return default
    if isinstance(v, int):
        if v >= 0:
            if isinstance(n, int):
                return z3.IntVal(min(v, n))
            return z3.If(nz >= v, z3.IntVal(v), nz)
        if isinstance(n, int):
            return z3.IntVal(max(n + v, 0))
        return z3.If(nz + v >= 0, nz + v, z3.IntVal(0))
    vz = zi(v)
    if it.ctx.valid(vz >= 0):
        if it.ctx.valid(vz <= nz):
            return vz
        return z3.If(vz <= nz, vz, nz)
    return z3.If(vz < 0, z3.If(nz + vz >= 0, nz + vz, 0), z3.If(vz <= nz, vz, nz))


def slice_(it, base, lo, hi, st, node):
    if not is_sym(base) and not is_sym(lo) and not is_sym(hi) and not is_sym(st):
        try:
            return base[lo:hi:st]
        except TypeError:
            it.raise_(TypeError, node)
    if base is None:
        it.raise_(TypeError, node)
    if st is not None and st != 1:
        if st == -1 and lo is None and hi is None and is_bytes(base):
            vb = to_vbytes(base)
            z = sym.F_rev(vb.z)
            return VBytes([Chunk(z, vb.klen())])
        raise Unsupported("slice step")
    if isinstance(base, (list, tuple)):
        if is_sym(lo) or is_sym(hi):
            lo = it.enumerate_int(lo, 64) if isinstance(lo, VInt) else lo
            hi = it.enumerate_int(hi, 64) if isinstance(hi, VInt) else hi
            if lo is None and hi is None:
                raise Unsupported("symbolic slice of a concrete list")
        return base[lo:hi]
    if isinstance(base, VHex):
        raise Unsupported("slicing a hex string")
    if isinstance(base, VSeq):
        n = mk_int(z3.Length(base.z))
        a = _norm_bound(it, lo, n, z3.IntVal(0))
        b = _norm_bound(it, hi, n, zi(n))
        return VSeq(z3.simplify(z3.Extract(base.z, a, z3.If(b - a >= 0, b - a, 0))), base.elem, base.elen)
    if not is_bytes(base):
        raise Unsupported(f"slice of {type(base).__name__}")
    vb = to_vbytes(base)
    return bytes_slice(it, vb, lo, hi)


def refine_len(it, vb):
    """Give chunks the concrete length the path condition forces (e.g. after `assert len(b) == 33`)."""
    if vb.klen() is not None or not it.ctx.opts.get("refine_len", False):
        return vb
    out = []
    changed = False
    memo = it.ctx.ghost.setdefault("len_refined", {})
    for c in vb.chunks:
        if c.n is None:
            k = (c.z.get_id(), len(it.ctx.pc))
            ent = memo.get(k)
            if ent is not None and ent[0].eq(c.z):
                n = ent[1]
            else:
                vals = it.ctx.solver.enum_values(z3.Length(c.z), 1)
                n = vals[0] if vals is not None and len(vals) == 1 else None
                memo[k] = (c.z, n)
            if n is not None:
                out.append(Chunk(c.z, n, c.lit))
                changed = True
                continue
        out.append(c)
    return VBytes(out) if changed else vb


def bytes_slice(it, vb, lo, hi):
    vb = refine_len(it, vb)
    total = vb.klen()
    if len(vb.chunks) == 1 and vb.chunks[0].lit is not None and total <= 64:
        # slice of a small concrete table at a symbolic position: case split over the feasible positions
        if isinstance(lo, VInt):
            v = it.enumerate_int(lo, 64)
            lo = v if v is not None else lo
        if isinstance(hi, VInt) and not isinstance(lo, VInt):
            v = it.enumerate_int(hi, 64)
            hi = v if v is not None else hi
        if not isinstance(lo, VInt) and not isinstance(hi, VInt):
            return vb.chunks[0].lit[lo:hi]
    # turn negative concrete bounds into positive ones when the total length is known
    if total is not None:
        if isinstance(lo, int) and lo < 0:
            lo = max(total + lo, 0)
        if isinstance(hi, int) and hi < 0:
            hi = max(total + hi, 0)
    # suffix-structural handling of negative bounds with unknown total length
    if isinstance(lo, int) and lo < 0 and hi is None:
        r = _suffix_take(vb, -lo)
        if r is not None:
            return norm_bytes(VBytes(r))
    if isinstance(hi, int) and hi < 0 and (lo is None or lo == 0):
        r = _suffix_drop(vb, -hi)
        if r is not None:
            return norm_bytes(VBytes(r))
    lo_c = 0 if lo is None else lo
    # structural walk for bounds that match chunk boundaries (concrete or provably equal symbolic sums);
    # negative concrete bounds that could not be resolved above are relative to an unknown total length: generic path
    neg = (isinstance(lo, int) and lo < 0) or (isinstance(hi, int) and hi < 0)
    res = None if neg else _structural_slice(it, vb, lo_c, hi)
    if res is not None:
        return norm_bytes(VBytes(res))
    n = bytes_len(vb)
    a = _norm_bound(it, lo, n, z3.IntVal(0))
    b = _norm_bound(it, hi, n, zi(n))
    ln = z3.simplify(b - a)
    if not it.ctx.valid(ln >= 0):
        ln = z3.If(ln >= 0, ln, 0)
    z = z3.simplify(z3.Extract(vb.z, a, ln))
    ln_s = z3.simplify(ln)
    return norm_bytes(VBytes([Chunk(z, ln_s.as_long() if z3.is_int_value(ln_s) else None)]))


def _suffix_take(vb, k):
    """last k bytes when the trailing chunks have known lengths summing to >= k."""
    out = []
    need = k
    for c in reversed(vb.chunks):
        if need == 0:
            break
        if c.n is None:
            return None
        if c.n <= need:
            out.append(c)
            need -= c.n
        else:
            out.append(chunk_slice(c, c.n - need, need))
            need = 0
    if need:
        return None  # whole value shorter than k is possible only if all known: then total known
    return list(reversed(out))


def _suffix_drop(vb, k):
    out = list(vb.chunks)
    need = k
    while need and out:
        c = out[-1]
        if c.n is None:
            return None
        if c.n <= need:
            out.pop()
            need -= c.n
        else:
            out[-1] = chunk_slice(c, 0, c.n - need)
            need = 0
    if need:
        return None
    return out


def _structural_slice(it, vb, lo, hi):
    """Slice [lo:hi] resolved on the chunk list; None if a bound falls inside an unknown-length chunk
    (or cannot be related to the chunk boundaries)."""
    chunks = list(vb.chunks)
    # position bookkeeping: concrete offset + list of symbolic lengths
    def split_at(chs, bound):
        """return (before, after) lists of chunks splitting at offset `bound` (int | VInt)."""
        before = []
        i = 0
        if isinstance(bound, int):
            rem = bound
            while i < len(chs):
                c = chs[i]
                if rem == 0:
                    break
                if c.n is None:
                    return None
                if c.n <= rem:
                    before.append(c)
                    rem -= c.n
                    i += 1
                else:
                    before.append(chunk_slice(c, 0, rem))
                    rest = chunk_slice(c, rem, c.n - rem)
                    return before, [rest] + chs[i + 1:]
            if rem > 0:
                # bound beyond the end: everything is before (python clamps)
                if i >= len(chs):
                    return before, []
            return before, chs[i:]
        # symbolic bound: must coincide with a chunk boundary (checked with the path condition)
        bz = zi(bound)
        acc = z3.IntVal(0)
        if it.ctx.valid(bz == 0):
            return [], chs
        for i, c in enumerate(chs):
            acc = z3.simplify(acc + c.zlen())
            before.append(c)
            if it.ctx.valid(bz == acc):
                return before, chs[i + 1:]
            if c.n is None and not it.ctx.valid(bz >= acc):
                return None
        return None
    r = split_at(chunks, lo)
    if r is None:
        return None
    _, after = r
    if hi is None:
        return after
    # hi relative to the start of `after`
    if isinstance(hi, int) and isinstance(lo, int):
        rel = hi - lo
        if rel <= 0:
            return []
    else:
        rel = mk_int(zi(hi) - zi(lo))
        if isinstance(rel, int) and rel <= 0:
            return []
        if not isinstance(rel, int) and not it.ctx.valid(zi(rel) >= 0):
            return None
    r2 = split_at(after, rel)
    if r2 is None:
        return None
    return r2[0]


# ------------------------------------------------------------------------------ methods

def call_method(it, recv, name, args, kwargs, node):
    E = _eng()
    if isinstance(recv, E.HashObj):
        if name == "digest" and not args:
            return hash_apply(it, recv.algo, recv.data)
        if name == "hexdigest" and not args:
            return VHex(hash_apply(it, recv.algo, recv.data))
        raise Unsupported(f"hash method {name}")
    if recv is int:
        if name == "from_bytes":
            return int_from_bytes(it, args, kwargs, node)
        if name == "to_bytes":
            return int_to_bytes(it, args[0], args[1:], kwargs, node)
    if recv is bytes and name == "fromhex":
        (s,) = args
        if isinstance(s, VHex):
            return s.b
        if isinstance(s, str):
            try:
                return bytes.fromhex(s)
            except ValueError:
                it.raise_(ValueError, node)
        raise Unsupported("bytes.fromhex of a non-hex symbolic string")
    if isinstance(recv, (list, dict)) and name in ("append", "extend", "insert", "pop", "clear", "update", "setdefault",
                                                   "remove", "reverse", "sort", "popitem", "__setitem__"):
        fr_ = getattr(it, "cur_frame", None)
        if fr_ is not None:
            it.check_frame(recv, node, fr_)
    if not is_sym(recv) and not is_sym(args) and not is_sym(kwargs):
        if isinstance(recv, (list, dict)) or True:
            try:
                m = getattr(recv, name)
            except AttributeError:
                it.raise_(AttributeError, node)
            try:
                return m(*args, **kwargs)
            except Exception as ex:  # noqa
                it.raise_(type(ex), node)
    # containers with symbolic contents: mutation / structural methods run natively
    if isinstance(recv, list):
        if name in ("append", "extend", "insert", "pop", "copy", "reverse", "clear"):
            if name == "pop" and not recv:
                it.raise_(IndexError, node)
            return getattr(recv, name)(*args, **kwargs)
        if name == "index" and isinstance(args[0], VWord) and args[0].words == recv and _is_wordlist(recv):
            return args[0].i          # the words are pairwise distinct: the position of words[i] is i
        if name == "index":
            (x,) = args
            for i, c in enumerate(recv):
                if it.ctx.decide(sym_eq(it, c, x)):
                    return i
            it.raise_(ValueError, node)
    if isinstance(recv, dict):
        if name in ("update", "get", "items", "keys", "values", "copy", "setdefault", "pop"):
            if any(is_sym(a) for a in args[:1]) and name in ("get", "pop", "setdefault"):
                raise Unsupported("symbolic dict key")
            try:
                r = getattr(recv, name)(*args, **kwargs)
            except KeyError:
                it.raise_(KeyError, node)
            if name in ("items", "keys", "values"):
                return list(r)
            return r
    if isinstance(recv, tuple) and name in ("index", "count"):
        raise Unsupported("tuple.index on symbolic")
    if is_int(recv):
        if name == "to_bytes":
            return int_to_bytes(it, recv, args, kwargs, node)
        if name == "bit_length":
            if isinstance(recv, int):
                return recv.bit_length()
            z = zi(recv)
            if it.ctx.valid(z >= 0):
                return mk_int(sym.F_bitlen(z))
            az = z3.If(z >= 0, z, -z)
            return mk_int(sym.F_bitlen(az))
    if is_bytes(recv):
        return bytes_method(it, recv, name, args, kwargs, node)
    if isinstance(recv, VHex):
        if name == "startswith":
            (p,) = args
            if isinstance(p, str):
                if p == "":
                    return True
                if not all(c in "0123456789abcdef" for c in p):
                    return False
            raise Unsupported("hex.startswith(hex-prefix)")
        if name == "encode":
            raise Unsupported("hex.encode")
        if name in ("upper", "lower"):
            if name == "lower":
                return recv
            raise Unsupported("hex.upper")
    if isinstance(recv, str):
        if name == "join":
            (xs,) = args
            if isinstance(xs, list) and all(isinstance(x, (str,)) for x in xs):
                return recv.join(xs)
            if recv == " " and isinstance(xs, list) and xs and all(isinstance(x, VWord) or (isinstance(x, str) and x and not any(c.isspace() for c in x)) for x in xs):
                return VPhrase(xs)
            return VOpaque()
        if name == "encode":
            return recv.encode(*args, **kwargs)
        if name == "format":
            return VOpaque()
    if isinstance(recv, VStr):
        if name == "encode" and (not args or args[0] in ("utf-8", "utf8")) and not kwargs:
            # uninterpreted; surrogates (the only UnicodeEncodeError) are excluded by the "str" input domain
            return VBytes([Chunk(sym.uf("utf8", BytesS, BytesS)(recv.z))])
        raise Unsupported(f"str.{name} on a symbolic string")
    if isinstance(recv, VPhrase):
        if name == "split" and not args and not kwargs:
            return list(recv.items)      # items are non-empty and whitespace-free: split() inverts ' '.join
        raise Unsupported(f"phrase.{name}")
    if isinstance(recv, VSeq):
        if name == "copy":
            return recv
    if isinstance(recv, VOpaque):
        return VOpaque()
    raise Unsupported(f"method {type(recv).__name__}.{name}")


def int_from_bytes(it, args, kwargs, node):
    b = args[0]
    order = args[1] if len(args) > 1 else kwargs.get("byteorder", "big")
    if kwargs.get("signed"):
        kw2 = dict(kwargs)
        kw2.pop("signed")
        u = int_from_bytes(it, args, kw2, node)
        n = bytes_len(b) if is_bytes(b) else None
        if n is None:
            raise Unsupported("signed from_bytes of non-bytes")
        if isinstance(u, int) and isinstance(n, int):
            return u - (1 << (8 * n)) if n and u >= (1 << (8 * n - 1)) else u
        full = pow_term(256, zi(n))
        return mk_int(z3.If(z3.And(zi(n) > 0, 2 * zi(u) >= full), zi(u) - full, zi(u)))
    if order not in ("big", "little"):
        it.raise_(ValueError, node)
    if isinstance(b, (list, tuple)):
        raise Unsupported("from_bytes of list")
    if not is_bytes(b):
        it.raise_(TypeError, node)
    if isinstance(b, bytes):
        return int.from_bytes(b, order)
    vb = to_vbytes(b)
    # inverse on a single guarded to_bytes chunk
    if len(vb.chunks) == 1:
        z = vb.chunks[0].z
        if z3.is_app(z) and z.decl().name() in ("tobe", "tole") and getattr(vb.chunks[0], "n", None) is not None:
            same = (z.decl().name() == "tobe") == (order == "big")
            g = it.ctx.ghost.get(("guard", z.get_id()))
            if same and g is not None and g.eq(z):
                return mk_int(z.arg(0))
        if vb.chunks[0].n == 1:
            return index(it, vb, 0, node, checked=False)
    f = sym.F_be if order == "big" else sym.F_le
    return mk_int(f(vb.z))


def int_to_bytes(it, x, args, kwargs, node):
    if not is_int(x):
        it.raise_(TypeError, node)
    n = args[0] if args else kwargs.get("length", 1)
    order = args[1] if len(args) > 1 else kwargs.get("byteorder", "big")
    if kwargs.get("signed"):
        raise Unsupported("signed to_bytes")
    if order not in ("big", "little"):
        it.raise_(ValueError, node)
    if not is_int(n):
        it.raise_(TypeError, node)
    if isinstance(x, int) and isinstance(n, int):
        try:
            return x.to_bytes(n, order)
        except OverflowError:
            it.raise_(OverflowError, node)
        except ValueError:
            it.raise_(ValueError, node)
    xz, nz = zi(x), zi(n)
    if isinstance(n, int):
        if n < 0:
            it.raise_(ValueError, node)
    else:
        if it.ctx.decide(mk_bool(nz < 0)):
            it.raise_(ValueError, node)
    ok = mk_bool(z3.And(xz >= 0, xz < pow_term(256, nz)))
    if not it.ctx.decide(ok):
        it.raise_(OverflowError, node)
    if isinstance(n, int) and n == 0:
        return b""
    if isinstance(n, int) and n == 1:
        return VBytes([Chunk(z3.Unit(xz), 1)])
    f = sym.F_tobe if order == "big" else sym.F_tole
    z = f(xz, nz)
    it.ctx.ghost[("guard", z.get_id())] = z   # the term itself is kept: ids are reused after gc
    c = Chunk(z, n if isinstance(n, int) else None)
    if not isinstance(n, int):
        it.ctx.assume(z3.Length(z) == nz)
    return VBytes([c])


def hash_apply(it, algo, data):
    if algo == "hmac_sha512":
        key, msg = data
        if isinstance(key, bytes) and isinstance(msg, bytes):
            return _hmac.new(key, msg, digestmod=hashlib.sha512).digest()
        return VBytes([Chunk(sym.F_hmac512(to_vbytes(key).z, to_vbytes(msg).z), 64)])
    if isinstance(data, bytes):
        return hashlib.new(algo, data).digest()
    f = {"sha256": sym.F_sha256, "sha512": sym.F_sha512, "ripemd160": sym.F_ripemd160}[algo]
    n = {"sha256": 32, "sha512": 64, "ripemd160": 20}[algo]
    return VBytes([Chunk(f(to_vbytes(data).z), n)])


def bytes_method(it, recv, name, args, kwargs, node):
    vb = to_vbytes(recv)
    if name == "hex" and not args:
        return VHex(recv)
    if name in ("lstrip", "rstrip"):
        if len(args) != 1 or not isinstance(args[0], bytes) or len(args[0]) != 1:
            raise Unsupported(f"{name} with other than one byte value")
        c = args[0][0]
        # a literal first (last) chunk that contains another byte value stops the run inside it: structural answer
        chs = list(norm_bytes(vb).chunks) if isinstance(norm_bytes(vb), VBytes) else None
        if chs:
            edge = chs[0] if name == "lstrip" else chs[-1]
            if edge.lit is not None:
                kept = edge.lit.lstrip(args[0]) if name == "lstrip" else edge.lit.rstrip(args[0])
                if kept:
                    if kept == edge.lit:
                        return recv
                    nc = Chunk(sym.seqlit(kept), len(kept), kept)
                    return norm_bytes(VBytes([nc] + chs[1:] if name == "lstrip" else chs[:-1] + [nc]))
        f = sym.F_lstrip if name == "lstrip" else sym.F_rstrip
        z = f(vb.z, z3.IntVal(c))
        return VBytes([Chunk(z, None)])
    if name == "join":
        (xs,) = args
        if isinstance(xs, (list, tuple)):
            out = b""
            if bytes_len(recv) != 0:
                raise Unsupported("join with non-empty separator on symbolic parts")
            for x in xs:
                if not is_bytes(x):
                    it.raise_(TypeError, node)
                out = bytes_concat(out, x)
            return out
        if isinstance(xs, VSeq) and xs.elem == "bytes":
            if bytes_len(recv) != 0:
                raise Unsupported("join with separator")
            return VBytes([Chunk(sym.F_join(xs.z), None)])
        raise Unsupported("join of non-list")
    if name == "startswith":
        (p,) = args
        return mk_bool(z3.PrefixOf(to_vbytes(p).z, vb.z))
    if name == "endswith":
        (p,) = args
        return mk_bool(z3.SuffixOf(to_vbytes(p).z, vb.z))
    if name == "decode":
        raise Unsupported("bytes.decode on symbolic bytes")
    from . import strmodels
    r = strmodels.bytes_method(it, recv, name, args, kwargs, node)
    if r is not NotImplemented:
        return r
    raise Unsupported(f"bytes.{name}")


# ------------------------------------------------------------------------------ builtins

def call_builtin(it, f, args, kwargs, node):
    E = _eng()
    from . import contracts as _c
    if f is _c.forall:
        return q_forall(it, args, node)
    from . import ghosts
    r_ = ghosts.try_call(it, f, args, kwargs, node)
    if r_ is not NotImplemented:
        return r_
    if f is builtins.int and len(args) == 1 and isinstance(args[0], ghosts.GhostClockValue):
        return args[0].as_int
    if f is _c.implies:
        a, b = it.truth(args[0]), it.truth(args[1])
        if isinstance(a, bool):
            return b if a else True
        if isinstance(b, bool):
            return True if b else mk_bool(z3.Not(a.z))
        return mk_bool(z3.Implies(a.z, b.z))
    if f is hashlib.sha256 or f is hashlib.sha512:
        algo = "sha256" if f is hashlib.sha256 else "sha512"
        data = args[0] if args else b""
        return E.HashObj(algo, data)
    if f is _ud.normalize and len(args) == 2 and isinstance(args[0], str) and isinstance(args[1], (str, VStr)):
        # Unicode normalisation is uninterpreted (one symbol per form); nothing about it is assumed
        return VStr(sym.uf("unorm_" + args[0], BytesS, BytesS)(zstr(args[1])))
    if f is hashlib.pbkdf2_hmac:
        names = ["hash_name", "password", "salt", "iterations", "dklen"]
        a_ = dict(zip(names, args))
        a_.update(kwargs)
        hn, pw, salt, iters, dklen = (a_.get(k) for k in names)
        if not isinstance(hn, str) or not isinstance(iters, int) or not (dklen is None or isinstance(dklen, int)):
            raise Unsupported("pbkdf2_hmac with symbolic hash name / iteration count / dklen")
        if not is_sym(pw) and not is_sym(salt):
            return hashlib.pbkdf2_hmac(hn, pw, salt, iters, dklen)
        # uninterpreted, one symbol per (hash, iterations, dklen); only the output length is assumed
        n_ = dklen if dklen is not None else hashlib.new(hn).digest_size
        fz = sym.uf(f"pbkdf2_{hn}_{iters}_{n_}", BytesS, BytesS, BytesS)
        return VBytes([Chunk(fz(to_vbytes(pw).z, to_vbytes(salt).z), n_)])
    if f is hashlib.new:
        algo = args[0]
        if algo not in ("ripemd160", "sha256", "sha512"):
            raise Unsupported(f"hashlib.new({algo})")
        return E.HashObj(algo, args[1] if len(args) > 1 else b"")
    if f is _hmac.new:
        key, msg = args[0], args[1]
        dm = kwargs.get("digestmod", args[2] if len(args) > 2 else None)
        if dm is not hashlib.sha512:
            raise Unsupported("hmac digestmod")
        return E.HashObj("hmac_sha512", (key, msg))
    if f is builtins.globals:
        return it.cur_frame.globals
    if f is builtins.vars and len(args) == 1:
        from . import ghosts as _g
        if isinstance(args[0], _g.GhostRecord):
            return {k: v for k, v in args[0].fields.items()}
        raise Unsupported("vars() of a non-ghost object")
    if f is builtins.len:
        (x,) = args
        if isinstance(x, (list, tuple, dict, str, bytes, range)):
            return len(x)
        if isinstance(x, VBytes):
            return bytes_len(x)
        if isinstance(x, VSeq):
            return mk_int(z3.Length(x.z))
        if isinstance(x, VHex):
            return mk_int(2 * zi(bytes_len(x.b)))
        it.raise_(TypeError, node)
    if f is builtins.range:
        if not is_sym(args):
            try:
                return range(*args)
            except (TypeError, ValueError) as ex:
                it.raise_(type(ex), node)
        if len(args) == 1:
            start, stop, step = 0, args[0], 1
        elif len(args) == 2:
            start, stop, step = args[0], args[1], 1
        else:
            start, stop, step = args
        return E.IterView("range", start, stop, step)
    if f is builtins.enumerate:
        start = kwargs.get("start", args[1] if len(args) > 1 else 0)
        return E.IterView("enumerate", args[0], start)
    if f is builtins.reversed:
        return E.IterView("reversed", args[0])
    if f is builtins.zip:
        return E.IterView("zip", *args)
    if f is builtins.int:
        if not args:
            return 0
        x = args[0]
        if len(args) == 1:
            if isinstance(x, (int, VInt)):
                return x
            if isinstance(x, VBool):
                return mk_int(zi(x))
            if isinstance(x, float):
                return int(x)
            if isinstance(x, str):
                try:
                    return int(x)
                except ValueError:
                    it.raise_(ValueError, node)
        if not is_sym(args):
            try:
                return int(*args)
            except (ValueError, TypeError) as ex:
                it.raise_(type(ex), node)
        raise Unsupported("int() of symbolic string")
    if f is builtins.bool:
        t = it.truth(args[0]) if args else False
        return t
    if f is builtins.bytes:
        if not args:
            return b""
        x = args[0]
        if is_bytes(x):
            return x
        if isinstance(x, list):
            out = b""
            for e in x:
                if not is_int(e):
                    it.raise_(TypeError, node)
                if isinstance(e, int):
                    if not 0 <= e < 256:
                        it.raise_(ValueError, node)
                    out = bytes_concat(out, bytes([e]))
                else:
                    if not it.ctx.decide(mk_bool(z3.And(zi(e) >= 0, zi(e) < 256))):
                        it.raise_(ValueError, node)
                    out = bytes_concat(out, VBytes([Chunk(z3.Unit(zi(e)), 1)]))
            return out
        if isinstance(x, int):
            return bytes(x)
        raise Unsupported("bytes() of symbolic")
    if f is builtins.list or f is builtins.tuple:
        if not args:
            return f()
        x = args[0]
        vals = it.iter_values(x, node)
        if vals is None:
            if isinstance(x, VSeq):
                return x
            vals = list(it.iter_symbolic_unroll(x, node))
        return f(vals)
    if f is builtins.isinstance:
        return _isinstance(it, args[0], args[1])
    if f is builtins.type and len(args) == 1:
        return _typeof(args[0])
    if f is builtins.getattr:
        obj, name = args[0], args[1]
        if isinstance(name, (VOpaque, VHex)):
            raise Unsupported("getattr with symbolic name")
        if len(args) > 2:
            try:
                return it.getattr(obj, name, node)
            except E.PyRaise:
                return args[2]
        return it.getattr(obj, name, node)
    if f is builtins.all or f is builtins.any:
        (xs,) = args
        vals = it.iter_values(xs, node)
        if vals is None:
            raise Unsupported("all/any over symbolic-length iterable")
        for v in vals:
            t = it.decide(v)
            if f is builtins.all and not t:
                return False
            if f is builtins.any and t:
                return True
        return f is builtins.all
    if f is builtins.sum:
        vals = it.iter_values(args[0], node)
        if vals is None:
            raise Unsupported("sum over symbolic-length iterable")
        acc = args[1] if len(args) > 1 else 0
        for v in vals:
            acc = binop(it, ast.Add(), acc, v, node)
        return acc
    if f is builtins.min or f is builtins.max:
        vals = list(args) if len(args) > 1 else it.iter_values(args[0], node)
        if vals is None or not vals:
            raise Unsupported("min/max")
        acc = vals[0]
        for v in vals[1:]:
            c = compare(it, ast.Lt() if f is builtins.min else ast.Gt(), v, acc, node)
            if isinstance(c, bool):
                acc = v if c else acc
            else:
                acc = mk_int(z3.If(c.z, zi(v), zi(acc)))
        return acc
    if f is builtins.abs:
        (x,) = args
        if isinstance(x, VInt):
            return mk_int(z3.If(x.z >= 0, x.z, -x.z))
        return abs(x)
    if f is builtins.divmod:
        a, b = args
        return (binop(it, ast.FloorDiv(), a, b, node), binop(it, ast.Mod(), a, b, node))
    if f is builtins.pow:
        if len(args) == 3:
            from . import field
            return field.pow_mod(it, args[0], args[1], args[2], node)
        return binop(it, ast.Pow(), args[0], args[1], node)
    if f is builtins.ord:
        (x,) = args
        if is_bytes(x):
            if bytes_len(x) != 1:
                it.raise_(TypeError, node)
            return index(it, x, 0, node, checked=False)
        return ord(x)
    if f is builtins.map:
        fn, xs = args
        vals = it.iter_values(xs, node)
        if vals is None:
            raise Unsupported("map over symbolic-length iterable")
        return [it.call(fn, [v], {}, node) for v in vals]
    if f is builtins.filter:
        fn, xs = args
        vals = it.iter_values(xs, node)
        if vals is None:
            raise Unsupported("filter over symbolic-length iterable")
        return [v for v in vals if it.decide(it.call(fn, [v], {}, node))]
    if f is builtins.sorted:
        if is_sym(args):
            raise Unsupported("sorted of symbolic")
        return sorted(*args, **kwargs)
    if f is builtins.format or f is builtins.bin or f is builtins.hex or f is builtins.str or f is builtins.repr:
        if not is_sym(args):
            return f(*args, **kwargs)
        from . import strmodels
        r = strmodels.call_builtin(it, f, args, kwargs, node)
        if r is not NotImplemented:
            return r
        return VOpaque()
    if f is _copy.copy or f is _copy.deepcopy:
        (x,) = args
        return _deepcopy_val(x) if f is _copy.deepcopy else (list(x) if isinstance(x, list) else (dict(x) if isinstance(x, dict) else x))
    if f is builtins.print:
        return None
    hook = it.ctx.opts.get("builtin_hooks", {}).get(getattr(f, "__qualname__", None) and f"{getattr(f, '__module__', '')}.{f.__qualname__}")
    if hook is not None:
        return hook(it, args, kwargs, node)
    if isinstance(f, type) and issubclass(f, BaseException):
        return E.ExcValue(E.PyRaise(f, args[0] if args else None))
    mod = getattr(f, "__module__", None)
    if mod == "logging" or (isinstance(f, types.MethodType) and type(f.__self__).__module__ == "logging"):
        return None
    if not is_sym(args) and not is_sym(kwargs) and callable(f) and _pure_native(f):
        try:
            return f(*args, **kwargs)
        except Exception as ex:  # noqa
            it.raise_(type(ex), node)
    raise Unsupported(f"call of {getattr(f, '__qualname__', f)!r} ({type(f).__name__})")


class _ConstDigest:
    def __init__(self, d):
        self.d = d


def _pure_native(f):
    import math, os as _os
    return f in (math.ceil, math.floor, _os.path.join, _os.path.split, builtins.chr, builtins.hash, builtins.id) or \
        (isinstance(f, type) and f in (dict, set, frozenset, float, str))


def _deepcopy_val(x):
    if isinstance(x, list):
        return [_deepcopy_val(v) for v in x]
    if isinstance(x, dict):
        return {k: _deepcopy_val(v) for k, v in x.items()}
    return x


def _typeof(v):
    if isinstance(v, VInt):
        return int
    if isinstance(v, VBool):
        return bool
    if isinstance(v, VBytes):
        return bytes
    if isinstance(v, (VHex, VOpaque)):
        return str
    if isinstance(v, VSeq):
        return list
    return type(v)


def _isinstance(it, v, t):
    if isinstance(t, tuple):
        return any(_isinstance(it, v, x) for x in t)
    return issubclass(_typeof(v), t)


# patch: hmac digest object
def _constdigest_method(it, recv, name, args):
    if name == "digest":
        return recv.d
    raise Unsupported("hmac method")


# ------------------------------------------------------------------------------ comprehension -> map

def seq_map(it, xs, e, g, fr):
    """[elt for target in xs] over a symbolic-length list: a fresh map symbol with a pointwise axiom."""
    from . import specs
    return specs.seq_map(it, xs, e, g, fr)


def q_forall(it, args, node):
    """forall(lambda i: body, lo, hi) -> ForAll i. lo <= i < hi => body(i)."""
    from . import verify
    E = _eng()
    fn, lo, hi = args
    if not isinstance(fn, E.Closure):
        raise Unsupported("forall needs a lambda")
    if not is_sym(lo) and not is_sym(hi) and hi - lo <= 4:
        return all(it.decide(it.call_closure(fn, [i])) for i in range(lo, hi))
    i = it.ctx.fresh_int("q_" + fn.node.args.args[0].arg)
    rng = z3.And(zi(lo) <= i.z, i.z < zi(hi))
    if not it.ctx.feasible(rng):
        return True
    # evaluate the body under the range hypothesis in a pushed scope
    it.ctx.solver.push()
    npc = len(it.ctx.pc)
    try:
        it.ctx.assume(rng)
        sub = E.Frame(dict(fn.frame.locals), fn.frame.globals, fn.frame.fname)
        sub.locals[fn.node.args.args[0].arg] = i
        body = verify.formula(it, fn.node.body, sub)
    finally:
        del it.ctx.pc[npc:]
        it.ctx.solver.pop()
    return mk_bool(z3.ForAll([i.z], z3.Implies(rng, body)))
