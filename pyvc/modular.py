"""Call by contract (filled in with the algebra layer)."""
from .sym import Unsupported


def call_by_contract(it, f, contract, args, kwargs, node):
    raise Unsupported("modular calls not implemented yet")
