"""Call by contract: at a call site of a function that has a contract (and is listed in the
theorem's `modular`), the callee's body is not consulted.  Its precondition becomes an obligation,
its cases fork the path, and the postcondition of the chosen case is assumed about a fresh result."""
import z3

from .sym import Unsupported, VBytes, VInt, is_sym, bytes_len, zi
from . import engine as E


def type_requires(pname, ty):
    """Implicit preconditions carried by a parameter type."""
    if isinstance(ty, str) and ty.startswith("bytes:"):
        return [f"len({pname}) == {int(ty.split(':')[1])}"]
    if ty == "nat":
        return [f"{pname} >= 0"]
    return []


def call_by_contract(it, f, thm, args, kwargs, node):
    from . import verify
    ctx = it.ctx
    fd = it.repo.fdef(f)
    env = it.bind(fd, f, args, kwargs, node)
    cur = ctx.opts["thm"].name
    qn = it.qualname(f)
    short = qn.split(".", 1)[1] if qn.startswith("bits.") else qn
    # the contract's parameters are the callee's formal parameters (possibly a subset with defaults fixed)
    fr = E.Frame({}, verify.harness_globals(), "<contract>")
    for p, ty in thm.params.items():
        if p not in env:
            raise Unsupported(f"contract {thm.name} names parameter {p!r} that {qn} does not have")
        fr.locals[p] = env[p]
    for p, v in env.items():
        if p not in thm.params:
            fixed = thm.options.get("fixed_args", {})
            if p in fixed and not is_sym(v) and v == fixed[p]:
                continue
            raise Unsupported(f"call of {qn} passes {p}={v!r} which contract {thm.name} does not cover")
    n = ctx.counters.get(("callsite", cur, qn), 0)
    ctx.counters[("callsite", cur, qn)] = n + 1
    site = f"{cur}.call.{short}.pre"
    for p, ty in thm.params.items():
        if isinstance(ty, (tuple, list)) and ty and ty[0] == "enum":
            if is_sym(fr.locals[p]) or fr.locals[p] not in ty[1]:
                ctx.oblige(site, z3.BoolVal(False), {"kind": "call-pre", "clause": f"{p} in {ty[1]!r}"})
        for r in type_requires(p, ty):
            ctx.oblige(site, verify.formula(it, r, fr), {"kind": "call-pre", "clause": r})
    for r in thm.requires:
        ctx.oblige(site, verify.formula(it, r, fr), {"kind": "call-pre", "clause": r})
    for k, src in thm.lets.items():
        fr.locals[k] = verify.value_of(it, src, fr)
    ctx.notes["assumed_contracts"].add(thm.name)
    for p_ in thm.params:
        ctx.ghost[f"ghost_call_{f.__name__}_{p_}"] = fr.locals[p_]      # arguments of the latest call, for data-flow clauses
    ctx.ghost[f"ghost_calls_{f.__name__}"] = ctx.ghost.get(f"ghost_calls_{f.__name__}", 0) + 1
    # deterministic (pure) callee: the same arguments give the same outcome on this path
    try:
        key = (qn,) + tuple(_argkey(fr.locals[p]) for p in thm.params)
    except Unsupported:
        key = None
    memo = ctx.ghost.setdefault("pure_calls", [])
    cases = thm.cases
    k = ctx.fork(len(cases)) if len(cases) > 1 else 0
    case = cases[k]
    reuse = None
    if key is not None and thm.options.get("pure", True):
        for k2, keep, outcome in memo:
            if k2 == key and outcome[0] == "return" and outcome[2] == k:
                reuse = outcome[1]     # deterministic callee: the same arguments in the same case give the same result
    if case.when.strip() == "otherwise":
        ctx.assume(z3.Not(z3.Or(*[verify.formula(it, c.when, fr) for c in cases[:k]])) if k else z3.BoolVal(True))
    else:
        ctx.assume(verify.formula(it, case.when, fr))
    if case.raises is not None:
        raise E.PyRaise(case.raises[0], None, getattr(node, "lineno", None))
    rty = thm.options.get("returns")
    if rty is None:
        raise Unsupported(f"contract {thm.name} used modularly needs options['returns']")
    result = reuse if reuse is not None else verify.make_param(ctx, ctx.fresh_name(f"ret_{f.__name__}"), rty, [])
    fr.locals["result"] = result
    for cname, clause in case.clauses():
        ctx.assume(verify.formula(it, clause, fr))
    if key is not None and reuse is None:
        memo.append((key, [fr.locals[p] for p in thm.params], ("return", result, k)))
    ctx.ghost[f"ghost_ret_{f.__name__}"] = result
    return result


def _argkey(v):
    """Syntactic identity of an argument value (z3 terms are hash-consed; the values are kept alive by the memo)."""
    from .sym import VBool, VHex, VSeq, to_vbytes
    if isinstance(v, (int, bool, str, bytes, type(None))):
        return ("c", type(v).__name__, v)
    if isinstance(v, VInt):
        return ("i", z3.simplify(v.z).sexpr())
    if isinstance(v, VBytes):
        return ("b", z3.simplify(v.z).sexpr())
    if isinstance(v, VBool):
        return ("o", z3.simplify(v.z).sexpr())
    if isinstance(v, VHex):
        return ("h", _argkey(v.b))
    if isinstance(v, VSeq):
        return ("s", z3.simplify(v.z).sexpr())
    if isinstance(v, (tuple, list)):
        return (type(v).__name__,) + tuple(_argkey(x) for x in v)
    raise Unsupported("argument kind in pure-call memo")
