"""Native evaluation of a theorem on concrete inputs (replay of counterexamples, witnesses, native search)."""
import re as _re
import traceback

from . import verify


def _env(inputs):
    g = dict(verify.harness_globals())
    g.update(inputs)
    return g


def native_check(thm, inputs, hooks=None):
    """Run the harness body natively on `inputs` and evaluate the contract.

    Returns dict(status=..., ...) with status in
      'pre-false'  : requires not satisfied by these inputs (nothing checked)
      'ok'         : contract holds
      'violation'  : contract violated (detail says which case/clause)
      'error'      : the contract itself could not be evaluated
    """
    env = _env(inputs)
    try:
        for r in thm.requires:
            if not eval(r, env):
                return {"status": "pre-false", "clause": r}
        for k, src in thm.lets.items():
            env[k] = eval(src, env)
    except Exception as ex:  # noqa
        return {"status": "pre-false", "clause": f"requires/lets raised {type(ex).__name__}: {ex}"}
    if hooks and hooks.get("setup"):
        hooks["setup"](env)
    rec, undo = _record_ghost_calls(thm)
    disarm = _arm_timeout(int(thm.options.get("native_timeout_s", NATIVE_TIMEOUT_S)))
    try:
        result = eval(thm.options.get("native_body", thm.body), env)
        outcome = ("return", result, None)
    except BaseException as ex:  # noqa
        if isinstance(ex, (KeyboardInterrupt, SystemExit)):
            raise
        outcome = ("raise", None, ex)
    finally:
        disarm()
        undo()
    env.update(rec)
    env["result"] = outcome[1]
    applicable = 0
    for case in thm.cases:
        try:
            w = (applicable == 0) if case.when.strip() == "otherwise" else bool(eval(case.when, env))
        except Exception:  # noqa
            w = False
        if not w:
            continue
        applicable += 1
        exp_raise = case.raises is not None
        either = exp_raise and bool(case.clauses())
        if outcome[0] == "return" and (not exp_raise or either):
            for cname, clause in case.clauses():
                if any(g_ not in env for g_ in _re.findall(r"ghost_\w+", clause)):
                    continue        # data-flow clause over ghost state of the symbolic run that is not observable natively
                try:
                    ok = bool(eval(clause, env))
                except Exception as ex:  # noqa
                    return {"status": "violation", "case": case.name, "clause": cname, "text": clause,
                            "observed": _short(result), "why": f"clause raised {type(ex).__name__}: {ex}"}
                if not ok:
                    return {"status": "violation", "case": case.name, "clause": cname, "text": clause,
                            "observed": _short(result)}
        elif outcome[0] == "raise" and exp_raise and isinstance(outcome[2], case.raises):
            continue
        else:
            got = f"returned {_short(result)}" if outcome[0] == "return" else \
                f"raised {type(outcome[2]).__name__}: {_short(str(outcome[2]))}"
            want = "normal return" if not exp_raise else "raise " + "/".join(c.__name__ for c in case.raises)
            return {"status": "violation", "case": case.name, "clause": "outcome", "observed": got, "required": want}
    if applicable == 0:
        return {"status": "violation", "case": None, "clause": "cases_exhaustive",
                "observed": "no contract case applies to this input"}
    return {"status": "ok"}


NATIVE_TIMEOUT_S = 60


class DidNotTerminate(Exception):
    """the real code ran longer than the native time limit on this input (every function under contract here finishes
    in well under a second on the pinned tree): reported like any other unexpected exception"""


def _arm_timeout(seconds):
    import signal
    import threading
    if threading.current_thread() is not threading.main_thread() or not hasattr(signal, "SIGALRM"):
        return lambda: None

    def on_alarm(signum, frame):
        raise DidNotTerminate(f"no result after {seconds} s")
    try:
        old = signal.signal(signal.SIGALRM, on_alarm)
        signal.alarm(seconds)
    except ValueError:
        return lambda: None

    def disarm():
        signal.alarm(0)
        signal.signal(signal.SIGALRM, old)
    return disarm


def _record_ghost_calls(thm):
    """ghost_call_<fn>_<param> / ghost_ret_<fn> / ghost_calls_<fn> of the contract text, observed natively: the named
    (module-level, modularly used) functions are wrapped for the duration of the run and their latest call recorded."""
    import importlib
    import inspect
    names = set()
    for case in thm.cases:
        for _, clause in case.clauses():
            for m in _re.finditer(r"ghost_(?:call|ret|calls)_(\w+)", clause):
                names.add(m.group(1))
    rec, patched = {}, []
    for qn in [q.split("@")[0] for q in thm.modular]:
        mod, _, fn = qn.rpartition(".")
        hit = [n for n in names if n == fn or n.startswith(fn + "_")]
        if not hit:
            continue
        try:
            m = importlib.import_module(mod)
            f = getattr(m, fn)
            sig = inspect.signature(f)
        except Exception:  # noqa
            continue

        def wrap(f=f, fn=fn, sig=sig):
            def w(*a, **k):
                r = f(*a, **k)
                try:
                    ba = sig.bind(*a, **k)
                    ba.apply_defaults()
                    for p_, v_ in ba.arguments.items():
                        rec[f"ghost_call_{fn}_{p_}"] = v_
                except TypeError:
                    pass
                rec[f"ghost_ret_{fn}"] = r
                rec[f"ghost_calls_{fn}"] = rec.get(f"ghost_calls_{fn}", 0) + 1
                return r
            return w
        setattr(m, fn, wrap())
        patched.append((m, fn, f))

    def undo():
        for m, fn, f in patched:
            setattr(m, fn, f)
    return rec, undo


def _short(v, n=300):
    s = repr(v)
    return s if len(s) <= n else s[:n] + f"...(+{len(s) - n} chars)"


def jsonable(v):
    if isinstance(v, (bytes, bytearray)):
        return {"hex": bytes(v).hex()}
    if isinstance(v, dict):
        return {str(k): jsonable(x) for k, x in v.items()}
    if isinstance(v, (list, tuple)):
        return [jsonable(x) for x in v]
    if isinstance(v, (int, str, bool, float)) or v is None:
        return v if not isinstance(v, int) or isinstance(v, bool) or abs(v) < 2 ** 53 else {"int": str(v)}
    return repr(v)


def unjson(v):
    if isinstance(v, dict):
        if set(v.keys()) == {"hex"}:
            return bytes.fromhex(v["hex"])
        if set(v.keys()) == {"int"}:
            return int(v["int"])
        return {k: unjson(x) for k, x in v.items()}
    if isinstance(v, list):
        return [unjson(x) for x in v]
    return v
