"""Native evaluation of a theorem on concrete inputs (replay of counterexamples, witnesses, native search)."""
import traceback

from . import verify


def _env(inputs):
    g = dict(verify.harness_globals())
    g.update(inputs)
    return g


def native_check(thm, inputs, hooks=None):
    """Run the harness body natively on `inputs` and evaluate the contract.

    Returns dict(status=..., ...) with status in
      'pre-false'  : requires not satisfied by these inputs (nothing checked)
      'ok'         : contract holds
      'violation'  : contract violated (detail says which case/clause)
      'error'      : the contract itself could not be evaluated
    """
    env = _env(inputs)
    try:
        for r in thm.requires:
            if not eval(r, env):
                return {"status": "pre-false", "clause": r}
        for k, src in thm.lets.items():
            env[k] = eval(src, env)
    except Exception as ex:  # noqa
        return {"status": "pre-false", "clause": f"requires/lets raised {type(ex).__name__}: {ex}"}
    if hooks and hooks.get("setup"):
        hooks["setup"](env)
    try:
        result = eval(thm.options.get("native_body", thm.body), env)
        outcome = ("return", result, None)
    except BaseException as ex:  # noqa
        if isinstance(ex, (KeyboardInterrupt, SystemExit)):
            raise
        outcome = ("raise", None, ex)
    env["result"] = outcome[1]
    applicable = 0
    for case in thm.cases:
        try:
            w = (applicable == 0) if case.when.strip() == "otherwise" else bool(eval(case.when, env))
        except Exception:  # noqa
            w = False
        if not w:
            continue
        applicable += 1
        exp_raise = case.raises is not None
        either = exp_raise and bool(case.clauses())
        if outcome[0] == "return" and (not exp_raise or either):
            for cname, clause in case.clauses():
                if "ghost_" in clause:
                    continue        # data-flow clause over ghost state of the symbolic run: not observable natively
                try:
                    ok = bool(eval(clause, env))
                except Exception as ex:  # noqa
                    return {"status": "violation", "case": case.name, "clause": cname, "text": clause,
                            "observed": _short(result), "why": f"clause raised {type(ex).__name__}: {ex}"}
                if not ok:
                    return {"status": "violation", "case": case.name, "clause": cname, "text": clause,
                            "observed": _short(result)}
        elif outcome[0] == "raise" and exp_raise and isinstance(outcome[2], case.raises):
            continue
        else:
            got = f"returned {_short(result)}" if outcome[0] == "return" else \
                f"raised {type(outcome[2]).__name__}: {_short(str(outcome[2]))}"
            want = "normal return" if not exp_raise else "raise " + "/".join(c.__name__ for c in case.raises)
            return {"status": "violation", "case": case.name, "clause": "outcome", "observed": got, "required": want}
    if applicable == 0:
        return {"status": "violation", "case": None, "clause": "cases_exhaustive",
                "observed": "no contract case applies to this input"}
    return {"status": "ok"}


def _short(v, n=300):
    s = repr(v)
    return s if len(s) <= n else s[:n] + f"...(+{len(s) - n} chars)"


def jsonable(v):
    if isinstance(v, (bytes, bytearray)):
        return {"hex": bytes(v).hex()}
    if isinstance(v, dict):
        return {str(k): jsonable(x) for k, x in v.items()}
    if isinstance(v, (list, tuple)):
        return [jsonable(x) for x in v]
    if isinstance(v, (int, str, bool, float)) or v is None:
        return v if not isinstance(v, int) or isinstance(v, bool) or abs(v) < 2 ** 53 else {"int": str(v)}
    return repr(v)


def unjson(v):
    if isinstance(v, dict):
        if set(v.keys()) == {"hex"}:
            return bytes.fromhex(v["hex"])
        if set(v.keys()) == {"int"}:
            return int(v["int"])
        return {k: unjson(x) for k, x in v.items()}
    if isinstance(v, list):
        return [unjson(x) for x in v]
    return v
