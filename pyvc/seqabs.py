"""EUF+LIA abstraction of the sequence theory for the in-process solver.

z3's sequence solver builds explicit models and stalls on constraints such as len(s) > 252.
Every (Seq Int) / (Seq (Seq Int)) term is therefore translated to an uninterpreted sort with
uninterpreted len / cat / ext / nth / unit symbols, and ground instances of true sequence-theory
facts are added per occurring term.  Because every added instance is valid in the sequence theory,
'unsat' of the abstraction implies 'unsat' of the original query (sound for discharging
obligations and for pruning paths); 'sat' of the abstraction proves nothing and is never used as a
refutation - refutations come from the un-abstracted query given to the CLI portfolio.
"""
import z3

from .sym import IntS, BoolS, BytesS, LBytesS

B = z3.DeclareSort("B")
LB = z3.DeclareSort("LB")

_F = {}


def fn(name, *sorts):
    key = (name,) + tuple(str(s) for s in sorts)
    f = _F.get(key)
    if f is None:
        f = z3.Function(name, *sorts)
        _F[key] = f
    return f


len_B = fn("len_B", B, IntS)
len_LB = fn("len_LB", LB, IntS)
cat_B = fn("cat_B", B, B, B)
cat_LB = fn("cat_LB", LB, LB, LB)
ext_B = fn("ext_B", B, IntS, IntS, B)
ext_LB = fn("ext_LB", LB, IntS, IntS, LB)
nth_B = fn("nth_B", B, IntS, IntS)
nth_LB = fn("nth_LB", LB, IntS, B)
unit_B = fn("unit_B", IntS, B)
unit_LB = fn("unit_LB", B, LB)
empty_B = z3.Const("empty_B", B)
empty_LB = z3.Const("empty_LB", LB)
contains_B = fn("contains_B", B, B, BoolS)
contains_LB = fn("contains_LB", LB, LB, BoolS)
prefix_B = fn("prefix_B", B, B, BoolS)
suffix_B = fn("suffix_B", B, B, BoolS)


def msort(s):
    if s == BytesS:
        return B
    if s == LBytesS:
        return LB
    if z3.is_seq(z3.Const("_", s)) if False else False:
        raise ValueError
    return s


class Abstraction:
    def __init__(self):
        self.memo = {}
        self.lits = {}       # bytes -> const
        self.lit_axioms = []

    def lit(self, vals):
        key = tuple(vals)
        c = self.lits.get(key)
        if c is None:
            c = z3.Const("lit_" + bytes(v % 256 for v in vals).hex() + ("" if all(0 <= v < 256 for v in vals) else "_x"), B)
            ax = [len_B(c) == len(vals)]
            for i, v in enumerate(vals[:40]):
                ax.append(nth_B(c, z3.IntVal(i)) == v)
            if len(vals) > 40:
                for i in range(len(vals) - 8, len(vals)):
                    ax.append(nth_B(c, z3.IntVal(i)) == vals[i])
            for other, oc in self.lits.items():
                if other != key:
                    ax.append(oc != c)
            self.lits[key] = c
            self.lit_axioms.extend(ax)
        return c

    def tr(self, t):
        k = t.get_id()
        r = self.memo.get(k)
        if r is not None:
            r = r[1]
        if r is None:
            r = self._tr(t)
            if z3.is_app(r) and r.sort().kind() == z3.Z3_SEQ_SORT:
                raise NotImplementedError(f"untranslated sequence term {t.decl().name()} kind {t.decl().kind()}: {t}")
            self.memo[k] = (t, r)   # keep t alive: z3 ast ids are reused after garbage collection
        return r

    def _tr(self, t):
        if z3.is_quantifier(t):
            n = t.num_vars()
            consts = [z3.Const(f"{t.var_name(i)}!b{t.get_id()}", msort(t.var_sort(i))) for i in range(n)]
            orig = [z3.Const(f"{t.var_name(i)}!b{t.get_id()}", t.var_sort(i)) for i in range(n)]
            body = z3.substitute_vars(t.body(), *reversed(orig))
            ab = self.tr(body)
            if any(c.sort() != o.sort() for c, o in zip(consts, orig)):
                raise NotImplementedError("quantified sequence variable")
            return z3.ForAll(consts, ab) if t.is_forall() else z3.Exists(consts, ab)
        if z3.is_var(t):
            return t
        if not z3.is_app(t):
            return t
        d = t.decl()
        kind = d.kind()
        ch = t.children()
        srt = t.sort()
        if kind == z3.Z3_OP_SEQ_CONCAT:
            isL = srt == LBytesS
            parts = []
            run = []
            for c in ch:
                if (not isL) and z3.is_app_of(c, z3.Z3_OP_SEQ_UNIT) and z3.is_int_value(c.arg(0)):
                    run.append(c.arg(0).as_long())
                    continue
                if run:
                    parts.append(self.lit(run) if len(run) > 1 else unit_B(z3.IntVal(run[0])))
                    run = []
                parts.append(self.tr(c))
            if run:
                parts.append(self.lit(run) if len(run) > 1 else unit_B(z3.IntVal(run[0])))
            cat = cat_LB if isL else cat_B
            r = parts[-1]
            for p in reversed(parts[:-1]):
                r = cat(p, r)
            return r
        if kind == z3.Z3_OP_SEQ_LENGTH:
            a = self.tr(ch[0])
            if a.sort() != B and a.sort() != LB:
                raise NotImplementedError(f"len of untranslated {ch[0].decl().name()} kind {ch[0].decl().kind()} sort {ch[0].sort()}: {ch[0]}")
            return (len_LB if a.sort() == LB else len_B)(a)
        if kind == z3.Z3_OP_SEQ_EXTRACT:
            a = self.tr(ch[0])
            return (ext_LB if a.sort() == LB else ext_B)(a, self.tr(ch[1]), self.tr(ch[2]))
        if kind == z3.Z3_OP_SEQ_AT:
            a = self.tr(ch[0])
            return (ext_LB if a.sort() == LB else ext_B)(a, self.tr(ch[1]), z3.IntVal(1))
        if kind == z3.Z3_OP_SEQ_NTH or d.name() in ("seq.nth_i", "seq.nth_u"):
            a = self.tr(ch[0])
            return (nth_LB if a.sort() == LB else nth_B)(a, self.tr(ch[1]))
        if kind == z3.Z3_OP_SEQ_UNIT:
            a = self.tr(ch[0])
            return (unit_LB if a.sort() == B else unit_B)(a)
        if kind == z3.Z3_OP_SEQ_EMPTY:
            return empty_LB if srt == LBytesS else empty_B
        if kind == z3.Z3_OP_SEQ_CONTAINS:
            a, b = self.tr(ch[0]), self.tr(ch[1])
            return (contains_LB if a.sort() == LB else contains_B)(a, b)
        if kind == z3.Z3_OP_SEQ_PREFIX:
            return prefix_B(self.tr(ch[0]), self.tr(ch[1]))
        if kind == z3.Z3_OP_SEQ_SUFFIX:
            return suffix_B(self.tr(ch[0]), self.tr(ch[1]))
        if kind == z3.Z3_OP_UNINTERPRETED:
            if not ch:
                ms = msort(srt)
                if ms is srt:
                    return t
                return z3.Const(d.name(), ms)
            doms = [msort(d.domain(i)) for i in range(d.arity())]
            rng = msort(d.range())
            f = fn(d.name(), *doms, rng)
            return f(*[self.tr(c) for c in ch])
        nch = [self.tr(c) for c in ch]
        if kind == z3.Z3_OP_EQ:
            return nch[0] == nch[1]
        if kind == z3.Z3_OP_DISTINCT:
            return z3.Distinct(*nch)
        if kind == z3.Z3_OP_ITE:
            return z3.If(nch[0], nch[1], nch[2])
        if kind in (z3.Z3_OP_SEQ_INDEX, z3.Z3_OP_SEQ_REPLACE, z3.Z3_OP_SEQ_IN_RE):
            raise NotImplementedError(f"sequence operator {d.name()} in abstraction")
        if not ch:
            return t
        if kind == z3.Z3_OP_AND:
            return z3.And(*nch)
        if kind == z3.Z3_OP_OR:
            return z3.Or(*nch)
        if kind == z3.Z3_OP_ADD:
            return z3.Sum(nch) if len(nch) > 2 else nch[0] + nch[1]
        if kind == z3.Z3_OP_MUL:
            return z3.Product(nch) if len(nch) > 2 else nch[0] * nch[1]
        try:
            return d(*nch)
        except z3.Z3Exception:
            raise NotImplementedError(f"operator {d.name()} (kind {kind}) over sequences in abstraction")


class SeqFacts:
    """Ground instances of sequence-theory facts for the abstract terms occurring in a query."""

    def __init__(self, rounds=3):
        self.seen = {}
        self.own_quants = {}
        self.rounds = rounds

    def feed(self, formulas):
        out = []
        frontier = list(formulas)
        for _ in range(self.rounds):
            terms = []
            stack = list(frontier)
            qnew = []
            while stack:
                t = stack.pop()
                k = t.get_id()
                if k in self.seen:
                    continue
                self.seen[k] = t
                if z3.is_app(t):
                    terms.append(t)
                    stack.extend(t.children())
                elif z3.is_quantifier(t):
                    # facts about terms that mention the bound variables are emitted under the same binder
                    if k in self.own_quants:
                        continue
                    n = t.num_vars()
                    cs = [z3.Const(f"{t.var_name(i)}!q{k}", t.var_sort(i)) for i in range(n)]
                    body = z3.substitute_vars(t.body(), *reversed(cs))
                    sub = []
                    st2 = [body]
                    seen2 = set()
                    while st2:
                        u = st2.pop()
                        if u.get_id() in seen2 or not z3.is_app(u):
                            continue
                        seen2.add(u.get_id())
                        sub.append(u)
                        st2.extend(u.children())
                    for u in sub:
                        for f in self._inst(u):
                            if any(_mentions(f, c) for c in cs):
                                qf = z3.ForAll(cs, f)
                                self.own_quants[qf.get_id()] = qf
                                qnew.append(qf)
                            elif u.get_id() not in self.seen:
                                qnew.append(f)
            new = list(qnew)
            for t in terms:
                new.extend(self._inst(t))
            new = [z3.simplify(n) for n in new]
            new = [n for n in new if not z3.is_true(n)]
            if not new:
                break
            out.extend(new)
            frontier = new
        return out

    def _inst(self, t):
        out = []
        s = t.sort()
        if s == B or s == LB:
            ln = len_B if s == B else len_LB
            emp = empty_B if s == B else empty_LB
            out.append(ln(t) >= 0)
            if not t.eq(emp):
                out.append((ln(t) == 0) == (t == emp))
            else:
                out.append(ln(t) == 0)
        if not z3.is_app(t) or not t.num_args():
            return out
        name = t.decl().name()
        ch = t.children()
        if name in ("cat_B", "cat_LB"):
            ln = len_B if name == "cat_B" else len_LB
            a, b = ch
            out.append(ln(t) == ln(a) + ln(b))
            out.append(z3.Implies(ln(a) == 0, t == b))
            out.append(z3.Implies(ln(b) == 0, t == a))
        elif name in ("unit_B", "unit_LB"):
            ln = len_B if name == "unit_B" else len_LB
            nt = nth_B if name == "unit_B" else nth_LB
            out.append(ln(t) == 1)
            out.append(nt(t, z3.IntVal(0)) == ch[0])
        elif name in ("ext_B", "ext_LB"):
            ln = len_B if name == "ext_B" else len_LB
            cat = cat_B if name == "ext_B" else cat_LB
            ext = ext_B if name == "ext_B" else ext_LB
            emp = empty_B if name == "ext_B" else empty_LB
            s0, o, l = ch
            n = ln(s0)
            inr = z3.And(o >= 0, o < n, l > 0)
            out.append(z3.Implies(inr, ln(t) == z3.If(l <= n - o, l, n - o)))
            out.append(z3.Implies(z3.Not(inr), t == emp))
            out.append(z3.Implies(z3.And(o == 0, l >= n), t == s0))
            if z3.is_app(s0) and s0.decl().name() == cat.name():
                a, b = s0.children()
                la = ln(a)
                out.append(z3.Implies(z3.And(o >= 0, l >= 0, o + l <= la), t == ext(a, o, l)))
                out.append(z3.Implies(z3.And(o >= la, l >= 0), t == ext(b, o - la, l)))
                out.append(z3.Implies(z3.And(o >= 0, o < la, o + l > la),
                                      t == cat(ext(a, o, la - o), ext(b, z3.IntVal(0), l - (la - o)))))
            if z3.is_app(s0) and s0.decl().name() == ext.name():
                s1, o1, l1 = s0.children()
                # extract of an extract that stays inside
                out.append(z3.Implies(z3.And(o >= 0, l >= 0, o1 >= 0, o + l <= ln(s0)), t == ext(s1, o1 + o, l)))
        elif name in ("nth_B", "nth_LB"):
            nt = nth_B if name == "nth_B" else nth_LB
            ln = len_B if name == "nth_B" else len_LB
            s0, i = ch
            if z3.is_app(s0):
                sn = s0.decl().name()
                if sn in ("cat_B", "cat_LB"):
                    a, b = s0.children()
                    out.append(z3.Implies(z3.And(i >= 0, i < ln(a)), t == nt(a, i)))
                    out.append(z3.Implies(z3.And(i >= ln(a), i < ln(s0)), t == nt(b, i - ln(a))))
                elif sn in ("ext_B", "ext_LB"):
                    s1, o, l = s0.children()
                    out.append(z3.Implies(z3.And(i >= 0, i < ln(s0)), t == nt(s1, o + i)))
        elif name == "prefix_B":
            a, b = ch
            out.append(t == z3.And(len_B(a) <= len_B(b), ext_B(b, z3.IntVal(0), len_B(a)) == a))
        elif name == "suffix_B":
            a, b = ch
            out.append(t == z3.And(len_B(a) <= len_B(b), ext_B(b, len_B(b) - len_B(a), len_B(a)) == a))
        elif name in ("contains_B", "contains_LB"):
            a, b = ch
            ln = len_B if name == "contains_B" else len_LB
            out.append(z3.Implies(t, ln(b) <= ln(a)))
            out.append(z3.Implies(a == b, t))
            out.append(z3.Implies(ln(b) == 0, t))
        return out


def _mentions(f, c):
    stack = [f]
    seen = set()
    while stack:
        u = stack.pop()
        if u.get_id() in seen:
            continue
        seen.add(u.get_id())
        if u.eq(c):
            return True
        if z3.is_app(u):
            stack.extend(u.children())
        elif z3.is_quantifier(u):
            stack.append(u.body())
    return False


class AbsSolver:
    """Incremental in-process solver over the abstraction."""

    def __init__(self, timeout_ms, nla=True):
        self.ab = Abstraction()
        self.facts = SeqFacts()
        self.s = z3.Solver()
        self.timeout_ms = timeout_ms
        self.s.set("timeout", timeout_ms)
        try:
            self.s.set("smt.mbqi", False)     # quantified facts: E-matching only (a 'sat' is never used anyway)
            if not nla:
                self.s.set("smt.arith.nl", False)   # products are opaque monomials (enough when both sides share them)
        except z3.Z3Exception:
            pass
        self._nlit = 0
        self.scopes = [[]]    # valid facts added inside each push scope (re-added to the outer scope on pop)

    def _fact(self, f):
        self.s.add(f)
        self.scopes[-1].append(f)

    def push(self):
        self.s.push()
        self.scopes.append([])

    def pop(self):
        popped = self.scopes.pop()
        self.s.pop()
        for f in popped:
            self.s.add(f)
        self.scopes[-1].extend(popped)

    def add_fact(self, z):
        """A universally valid instance (axiom instance / type fact): survives pop."""
        a = self.ab.tr(z)
        self._fact(a)
        for f in self.facts.feed([a]):
            self._fact(f)
        self._flush_lits()

    def _flush_lits(self):
        la = self.ab.lit_axioms
        if len(la) > self._nlit:
            new = la[self._nlit:]
            self._nlit = len(la)
            for a in new:
                self._fact(a)
            for f in self.facts.feed(new):
                self._fact(f)

    def add(self, z):
        a = self.ab.tr(z)
        self.s.add(a)
        for f in self.facts.feed([a]):
            self._fact(f)
        self._flush_lits()

    def check_with(self, z, timeout_ms=None):
        """check-sat of the current assertions plus z (not retained)."""
        if timeout_ms is not None:
            self.s.set("timeout", timeout_ms)
        try:
            return self._check_with(z)
        finally:
            if timeout_ms is not None:
                self.s.set("timeout", self.timeout_ms)

    def _check_with(self, z):
        a = self.ab.tr(z)
        extra = self.facts.feed([a])
        # facts are valid sequence-theory instances: keep them permanently
        for f in extra:
            self._fact(f)
        self._flush_lits()
        self.s.push()
        self.s.add(a)
        r = self.s.check()
        self.s.pop()
        return r

    def enum_values(self, z, maxn):
        """All values of the int term z consistent with the quantifier-free part of the assertions (a superset of the
        really feasible values, which is what a case split needs), or None if more than maxn / undecided."""
        a = self.ab.tr(z)
        for f in self.facts.feed([a]):
            self._fact(f)
        self._flush_lits()
        s2 = z3.Solver()
        s2.set("timeout", 3000)
        for f in self.s.assertions():
            if not _has_quant(f):
                s2.add(f)
        vals = []
        while True:
            r = s2.check()
            if r == z3.unsat:
                return vals
            if r != z3.sat or len(vals) >= maxn:
                return None
            val = s2.model().eval(a, model_completion=True)
            if not z3.is_int_value(val):
                return None
            vals.append(val.as_long())
            s2.add(a != val)


_QC = {}


def _has_quant(f):
    k = f.get_id()
    r = _QC.get(k)
    if r is not None and r[0].eq(f):
        return r[1]
    stack = [f]
    seen = set()
    res = False
    while stack:
        u = stack.pop()
        if u.get_id() in seen:
            continue
        seen.add(u.get_id())
        if z3.is_quantifier(u):
            res = True
            break
        if z3.is_app(u):
            stack.extend(u.children())
    _QC[k] = (f, res)
    return res
