"""Discharge obligations: in-process z3 first, then the CLI portfolio (z3 4.8.12, z3 5.1, cvc5)."""
import os
import re
import subprocess
import tempfile
import time
from concurrent.futures import ThreadPoolExecutor

import z3

from .axioms import Axioms
from . import sym

# z3 5.1.0 is the in-process solver (API); the CLI portfolio adds the two other installed solvers.  z3-new (5.1.0 CLI)
# joins only in the thorough tier: three processes per open obligation on 16 workers made verdicts flip under load.
SOLVERS_QUICK = [
    ("z3-4.8.12", ["/usr/bin/z3", "-smt2"]),
    ("cvc5-1.0.3", ["/usr/bin/cvc5", "--strings-exp", "--lang=smt2"]),
]
SOLVERS = SOLVERS_QUICK + [("z3-5.1.0", ["z3-new", "-smt2"])]


class Status:
    def __init__(self, oblig, status, backend, secs, model=None, detail=None, smt2=None):
        self.oblig = oblig
        self.status = status      # discharged | refuted | unknown
        self.backend = backend
        self.secs = secs
        self.model = model        # dict of input values (python) or None
        self.detail = detail
        self.smt2 = smt2


def z3_to_py(v):
    """z3 model value -> python (int, bool, list for sequences)."""
    if z3.is_int_value(v):
        return v.as_long()
    if z3.is_true(v):
        return True
    if z3.is_false(v):
        return False
    if z3.is_app_of(v, z3.Z3_OP_SEQ_EMPTY):
        return []
    if z3.is_app_of(v, z3.Z3_OP_SEQ_UNIT):
        return [z3_to_py(v.arg(0))]
    if z3.is_app_of(v, z3.Z3_OP_SEQ_CONCAT):
        out = []
        for c in v.children():
            out.extend(z3_to_py(c))
        return out
    if z3.is_string_value(v):
        return v.as_string()
    raise ValueError(f"cannot convert model value {v}")


def input_values(model, inputs):
    """inputs: list of (name, kind, payload) recorded by verify.make_param."""
    out = {}

    def conv(kind, payload):
        if kind == "const":
            return payload
        if kind == "int":
            return z3_to_py(model.eval(payload, model_completion=True))
        if kind == "bytes":
            xs = z3_to_py(model.eval(payload, model_completion=True))
            return bytes(x % 256 for x in xs)
        if kind == "str":
            xs = z3_to_py(model.eval(payload, model_completion=True))
            return "".join(chr(x % 0xD800) for x in xs)
        if kind == "list:bytes":
            xs = z3_to_py(model.eval(payload, model_completion=True))
            return [bytes(x % 256 for x in e) for e in xs]
        if kind == "list:int":
            return z3_to_py(model.eval(payload, model_completion=True))
        if kind == "tuple":
            return tuple(conv(k, p) for k, p in payload)
        if kind == "list":
            return [conv(k, p) for k, p in payload]
        if kind == "hex":
            return conv(*payload).hex()
        raise ValueError(kind)

    for name, kind, payload in inputs:
        try:
            out[name] = conv(kind, payload)
        except Exception as ex:  # noqa
            out[name] = f"<unconvertible: {ex}>"
    return out


def build_query(o, rounds=3, extra_rules=(), fuel=1):
    ax = Axioms(rounds=rounds)
    ax.no_concat_law = bool(o.meta.get("no_concat_law"))
    ax.extra_rules = list(extra_rules)
    ax.fuel = fuel
    neg = z3.Not(o.goal)
    inst = ax.feed(list(o.hyps) + [neg])
    return list(o.hyps) + inst, neg, ax


def to_smt2(assertions, logic="ALL"):
    s = z3.Solver()
    for a in assertions:
        s.add(a)
    text = s.to_smt2()
    text = text.replace("(check-sat)", "").replace("seq.nth_i", "seq.nth").replace("seq.nth_u", "seq.nth")
    return f"(set-logic {logic})\n" + text + "\n(check-sat)\n"


def run_cli(name, cmd, path, timeout):
    t0 = time.time()
    try:
        extra = []
        if "cvc5" in cmd[0]:
            extra = [f"--tlimit={int(timeout * 1000)}"]
        elif cmd[0].endswith("z3") or "z3-new" in cmd[0]:
            extra = [f"-T:{int(timeout) + 1}"]
        p = subprocess.run(cmd + extra + [path], capture_output=True, text=True, timeout=timeout + 5)
        out = (p.stdout or "").strip().splitlines()
        first = out[0].strip() if out else ""
        if first not in ("sat", "unsat", "unknown"):
            first = "unknown"
        return name, first, time.time() - t0, (p.stdout or "")[-400:] + (p.stderr or "")[-400:]
    except subprocess.TimeoutExpired:
        return name, "unknown", time.time() - t0, "timeout"


def _conjuncts(g):
    """top-level conjuncts of a goal  (A -> (B and C)) / (B and C)"""
    g = z3.simplify(g)
    pre = []
    while z3.is_implies(g):
        pre.append(g.arg(0))
        g = g.arg(1)
    if not z3.is_and(g):
        return [g]
    cs = list(g.children())
    if pre:
        cs = [z3.Implies(z3.And(*pre) if len(pre) > 1 else pre[0], c) for c in cs]
    return cs


def discharge(o, quick_ms=4000, cli_timeout=20, outdir=None, extra_rules=(), rounds=3, want_model=True, fuel=1, nla=True):
    t0 = time.time()
    if getattr(o, "inline", None):
        return Status(o, "discharged", o.inline, getattr(o, "inline_secs", 0.0), detail={"axioms": []})
    g = z3.simplify(o.goal)
    if z3.is_true(g):
        return Status(o, "discharged", "simplifier", time.time() - t0)
    hyps, neg, ax = build_query(o, rounds=rounds, extra_rules=extra_rules, fuel=fuel)
    from .seqabs import AbsSolver
    try:
        a = AbsSolver(quick_ms, nla=nla)
        for h in hyps:
            a.add(h)
        conj = _conjuncts(o.goal)
        if len(conj) > 2:
            # a conjunctive goal is proved conjunct by conjunct (same hypotheses, same instances)
            r = z3.unsat
            for cj in conj:
                if a.check_with(z3.Not(cj)) != z3.unsat:
                    r = z3.unknown
                    break
        else:
            r = a.check_with(neg)
    except NotImplementedError:
        r = z3.unknown
    dt = time.time() - t0
    if r == z3.unsat:
        return Status(o, "discharged", "z3-5.1.0(api, EUF+LIA abstraction of sequences)", dt, detail={"axioms": sorted(ax.used)})
    model = None
    r = z3.unknown  # a 'sat' of the abstraction proves nothing
    text = to_smt2(hyps + [neg])
    d = outdir or tempfile.mkdtemp(prefix="pyvc_")
    os.makedirs(d, exist_ok=True)
    fn = os.path.join(d, re.sub(r"[^A-Za-z0-9_.#-]", "_", getattr(o, "name_full", o.name)) + ".smt2")
    with open(fn, "w") as fh:
        fh.write(text)
    answers = []
    solvers = SOLVERS if cli_timeout > 60 else SOLVERS_QUICK
    with ThreadPoolExecutor(max_workers=len(solvers)) as ex:
        futs = [ex.submit(run_cli, n, c, fn, cli_timeout) for n, c in solvers]
        for f in futs:
            answers.append(f.result())
    verdicts = {a[1] for a in answers}
    dt = time.time() - t0
    if "unsat" in verdicts and ("sat" in verdicts or r == z3.sat):
        return Status(o, "error", "portfolio", dt, detail={"answers": answers, "inproc": str(r)}, smt2=fn)
    if "unsat" in verdicts:
        who = [a for a in answers if a[1] == "unsat"][0]
        if outdir is None:
            try:
                os.remove(fn)
            except OSError:
                pass
        return Status(o, "discharged", who[0], dt, detail={"axioms": sorted(ax.used)})
    if "sat" in verdicts or r == z3.sat:
        if model is None and want_model:
            s2 = z3.Solver()
            s2.set("timeout", max(quick_ms * 5, 20000))
            for h in hyps:
                s2.add(h)
            s2.add(neg)
            if s2.check() == z3.sat:
                try:
                    model = input_values(s2.model(), o.meta.get("inputs", []))
                except Exception as ex:  # noqa
                    model = {"<error>": str(ex)}
        who = [a[0] for a in answers if a[1] == "sat"] or ["z3-5.1.0(api)"]
        return Status(o, "refuted", ",".join(who), dt, model=model, detail={"answers": answers}, smt2=fn)
    return Status(o, "unknown", "portfolio", dt, detail={"answers": answers, "inproc": str(r)}, smt2=fn)
