"""Recursive spec functions as uninterpreted symbols with engine-side unfolding ("fuel"), and
comprehensions over symbolic lists as map symbols with a pointwise defining axiom."""
import ast

import z3

from . import sym
from .sym import (VInt, VBool, VBytes, VSeq, VHex, Unsupported, Chunk, zi, zb, mk_int, mk_bool,
                  to_vbytes, IntS, BoolS, BytesS, LBytesS)

SORTS = {"int": IntS, "bool": BoolS, "bytes": BytesS, "list:bytes": LBytesS, "list:int": BytesS}

UF_SPECS = {}   # decl name -> (python function, sig)


def uf(sig):
    """Decorator for recursive spec functions: sig = 'bytes,int -> int'."""
    args, ret = sig.split("->")
    argt = [a.strip() for a in args.split(",") if a.strip()]
    rett = ret.strip()

    def deco(f):
        f.__pyvc__ = {"kind": "uf", "args": argt, "ret": rett}
        return f
    return deco


def to_z(v, ty):
    if ty == "int":
        return zi(v)
    if ty == "bool":
        return zb(v)
    if ty == "bytes":
        return to_vbytes(v).z
    if ty.startswith("list:"):
        from .models import to_vseq
        like = VSeq(None, ty.split(":")[1])
        return to_vseq(None, v, like=like).z
    raise Unsupported(f"uf argument type {ty}")


def from_z(z, ty):
    if ty == "int":
        return mk_int(z)
    if ty == "bool":
        return mk_bool(z)
    if ty == "bytes":
        return vbytes_from_term(z)
    if ty.startswith("list:"):
        parts = ty.split(":")
        return VSeq(z, parts[1], int(parts[2]) if len(parts) > 2 else None)
    raise Unsupported(f"uf result type {ty}")


def vbytes_from_term(z):
    """Rebuild the chunk structure of a (Seq Int) term (literal runs, statically known lengths)."""
    from .sym import norm_bytes
    parts = z.children() if z3.is_app_of(z, z3.Z3_OP_SEQ_CONCAT) else [z]
    chunks = []
    for p in parts:
        if z3.is_app_of(p, z3.Z3_OP_SEQ_EMPTY):
            continue
        if z3.is_app_of(p, z3.Z3_OP_SEQ_UNIT):
            e = p.arg(0)
            if z3.is_int_value(e) and 0 <= e.as_long() < 256:
                b = bytes([e.as_long()])
                chunks.append(Chunk(sym.seqlit(b), 1, b))
            else:
                chunks.append(Chunk(p, 1))
            continue
        n = z3.simplify(z3.Length(p))
        chunks.append(Chunk(p, n.as_long() if z3.is_int_value(n) else None))
    r = norm_bytes(VBytes(chunks))
    return r


def decl_of(f, sp):
    name = "spec_" + f.__name__
    d = sym.uf(name, *[SORTS[a if not a.startswith("list:") else ":".join(a.split(":")[:2])] for a in sp["args"]],
               SORTS[sp["ret"] if not sp["ret"].startswith("list:") else ":".join(sp["ret"].split(":")[:2])])
    UF_SPECS[name] = (f, sp)
    return d


def apply_uf(it, f, sp, args, kwargs, node):
    if kwargs:
        raise Unsupported("keyword arguments to a uf spec function")
    d = decl_of(f, sp)
    zs = [to_z(a, t) for a, t in zip(args, sp["args"])]
    return from_z(d(*zs), sp["ret"])


def unfold_rules(thm):
    """Axiom-instantiation rule: one-step unfolding of every occurring application of a uf spec function."""
    from . import engine, verify

    def rule(t):
        if t.decl().kind() != z3.Z3_OP_UNINTERPRETED:
            return []
        ent = UF_SPECS.get(t.decl().name())
        if ent is None:
            return []
        f, sp = ent
        args = [from_z(c, ty) for c, ty in zip(t.children(), sp["args"])]
        fd = engine._spec_fdef(f)

        def run(ctx):
            itp = engine.Interp(ctx, verify.repo())
            env = itp.bind(fd, f, args, {}, None)
            fr = engine.Frame(env, f.__globals__, f"spec:{f.__name__}", qual=f"spec.{f.__name__}", fdef=fd)
            try:
                itp.exec_block(fd.body, fr)
            except engine.ReturnSig as r:
                return r.value
            return None

        out = []
        try:
            paths = engine.explore(run, opts={"unfolding": True})
        except Unsupported:
            return []
        for p in paths:
            if p.kind != "return":
                continue
            val = to_z(p.value, sp["ret"])
            cond = z3.And(*p.pc) if p.pc else z3.BoolVal(True)
            out.append(z3.Implies(cond, t == val))
        return out

    return [rule, map_rule] + lemma_rules(thm)


def _lemma_b58val_nonneg(t):
    """forall s. spec.b58val(s) >= 0   (proved by theorem C07.lemma.b58val_nonneg, induction on len(s))"""
    if t.decl().kind() == z3.Z3_OP_UNINTERPRETED and t.decl().name() == "spec_b58val":
        return [t >= 0]
    return []


LEMMAS = {"b58val_nonneg": _lemma_b58val_nonneg}   # enabled per theorem via options["lemmas"]


def lemma_rules(thm):
    return [LEMMAS[n] for n in thm.options.get("lemmas", [])]


def lemma_rule_wrapper(rule):
    return rule


# ------------------------------------------------------------------------------ comprehension maps

_MAPS = {}   # decl name -> (elem_in, elem_out, evaluator)


def seq_map(it, xs, e, g, fr):
    """[elt for target in xs] over a symbolic-length list xs.

    The result is the application of a map symbol named after the (alpha-normalised) element expression;
    equal comprehensions over equal lists are therefore equal terms.  Defining axioms (added per occurrence):
    len(map(xs)) = len(xs) and, quantified, map(xs)[i] = elt(xs[i])."""
    import hashlib
    from . import engine
    if not isinstance(g.target, ast.Name):
        raise Unsupported("comprehension target over a symbolic list must be a name")
    tname = g.target.id
    # free variables of the element expression other than the target must be concrete (captured in the key)
    free = sorted({n.id for n in ast.walk(e.elt) if isinstance(n, ast.Name)} - {tname})
    cap = []
    for n in free:
        if n in fr.locals:
            v = fr.locals[n]
            if sym.is_sym(v):
                raise Unsupported(f"comprehension over a symbolic list captures symbolic variable {n!r}")
            cap.append((n, repr(v)))
    norm = ast.dump(e.elt).replace(f"id='{tname}'", "id='_x'")
    key = hashlib.sha256((norm + repr(cap) + xs.elem + str(xs.elen)).encode()).hexdigest()[:10]
    # evaluate the element expression once on a probe element to learn the element type
    probe = it.seq_index(xs, VInt(z3.Int("probe!" + key)))
    sub = engine.Frame(dict(fr.locals), fr.globals, fr.fname)
    sub.locals[tname] = probe
    ctx = it.ctx
    npc = len(ctx.pc)
    ctx.solver.push()
    try:
        val = it.eval(e.elt, sub)
    finally:
        del ctx.pc[npc:]
        ctx.solver.pop()
    from .models import is_int, is_bytes
    if is_bytes(val):
        out_elem, out_sort = "bytes", LBytesS
        elen = to_vbytes(val).klen()
    elif is_int(val):
        out_elem, out_sort, elen = "int", BytesS, None
    else:
        raise Unsupported("comprehension element type")
    name = f"map_{key}"
    f = sym.uf(name, xs.z.sort(), out_sort)

    def elt_at(itp, xz, i):
        """element expression evaluated on xs[i] (as a z3 term)"""
        x = itp.seq_index(VSeq(xz, xs.elem, xs.elen), VInt(i))
        sub2 = engine.Frame(dict(fr.locals), fr.globals, fr.fname)
        sub2.locals[tname] = x
        v = itp.eval(e.elt, sub2)
        return to_vbytes(v).z if out_elem == "bytes" else zi(v)

    _MAPS[name] = (elt_at, it.repo)
    return VSeq(f(xs.z), out_elem, elen)


def map_rule(t):
    """len(map(xs)) == len(xs);  forall i in range: map(xs)[i] == elt(xs[i])."""
    if t.decl().kind() != z3.Z3_OP_UNINTERPRETED:
        return []
    ent = _MAPS.get(t.decl().name())
    if ent is None:
        return []
    from . import engine
    elt_at, repo = ent
    xz = t.arg(0)
    out = [z3.Length(t) == z3.Length(xz)]
    i = z3.Int("i!" + t.decl().name())

    def run(ctx):
        itp = engine.Interp(ctx, repo)
        return elt_at(itp, xz, i)
    try:
        paths = engine.explore(run, base_pc=[z3.And(i >= 0, i < z3.Length(xz))])
    except Unsupported:
        return out
    for p in paths:
        if p.kind == "return":
            cond = z3.And(*p.pc)
            out.append(z3.ForAll([i], z3.Implies(cond, t[i] == p.value)))
    return out
