"""Recursive spec functions as uninterpreted symbols with unfolding; comprehension maps."""
from .sym import Unsupported


def apply_uf(it, f, sp, args, kwargs, node):
    raise Unsupported("uf spec functions not implemented yet")


def seq_map(it, xs, e, g, fr):
    raise Unsupported("comprehension over symbolic list not implemented yet")


def unfold_rules(thm):
    return []
