"""Recursive spec functions as uninterpreted symbols with engine-side unfolding ("fuel"), and
comprehensions over symbolic lists as map symbols with a pointwise defining axiom."""
import ast

import z3

from . import sym
from .sym import (VInt, VBool, VBytes, VSeq, VHex, Unsupported, Chunk, zi, zb, mk_int, mk_bool,
                  to_vbytes, IntS, BoolS, BytesS, LBytesS)

SORTS = {"int": IntS, "bool": BoolS, "bytes": BytesS, "list:bytes": LBytesS, "list:int": BytesS}

UF_SPECS = {}   # decl name -> (python function, sig)


def uf(sig):
    """Decorator for recursive spec functions: sig = 'bytes,int -> int'."""
    args, ret = sig.split("->")
    argt = [a.strip() for a in args.split(",") if a.strip()]
    rett = ret.strip()

    def deco(f):
        f.__pyvc__ = {"kind": "uf", "args": argt, "ret": rett}
        return f
    return deco


def to_z(v, ty):
    if ty == "int":
        return zi(v)
    if ty == "bool":
        return zb(v)
    if ty == "bytes":
        return to_vbytes(v).z
    if ty.startswith("list:"):
        from .models import to_vseq
        like = VSeq(None, ty.split(":")[1])
        return to_vseq(None, v, like=like).z
    raise Unsupported(f"uf argument type {ty}")


def from_z(z, ty):
    if ty == "int":
        return mk_int(z)
    if ty == "bool":
        return mk_bool(z)
    if ty == "bytes":
        return vbytes_from_term(z)
    if ty.startswith("list:"):
        parts = ty.split(":")
        return VSeq(z, parts[1], int(parts[2]) if len(parts) > 2 else None)
    raise Unsupported(f"uf result type {ty}")


def vbytes_from_term(z):
    """Rebuild the chunk structure of a (Seq Int) term (literal runs, statically known lengths)."""
    from .sym import norm_bytes
    parts = z.children() if z3.is_app_of(z, z3.Z3_OP_SEQ_CONCAT) else [z]
    chunks = []
    for p in parts:
        if z3.is_app_of(p, z3.Z3_OP_SEQ_EMPTY):
            continue
        if z3.is_app_of(p, z3.Z3_OP_SEQ_UNIT):
            e = p.arg(0)
            if z3.is_int_value(e) and 0 <= e.as_long() < 256:
                b = bytes([e.as_long()])
                chunks.append(Chunk(sym.seqlit(b), 1, b))
            else:
                chunks.append(Chunk(p, 1))
            continue
        n = z3.simplify(z3.Length(p))
        chunks.append(Chunk(p, n.as_long() if z3.is_int_value(n) else None))
    r = norm_bytes(VBytes(chunks))
    return r


def decl_of(f, sp):
    name = "spec_" + f.__name__
    d = sym.uf(name, *[SORTS[a if not a.startswith("list:") else ":".join(a.split(":")[:2])] for a in sp["args"]],
               SORTS[sp["ret"] if not sp["ret"].startswith("list:") else ":".join(sp["ret"].split(":")[:2])])
    UF_SPECS[name] = (f, sp)
    return d


def apply_uf(it, f, sp, args, kwargs, node):
    if kwargs:
        raise Unsupported("keyword arguments to a uf spec function")
    d = decl_of(f, sp)
    zs = [to_z(a, t) for a, t in zip(args, sp["args"])]
    return from_z(d(*zs), sp["ret"])


def unfold_rules(thm):
    """Axiom-instantiation rule: one-step unfolding of every occurring application of a uf spec function."""
    from . import engine, verify

    def rule(t):
        if t.decl().kind() != z3.Z3_OP_UNINTERPRETED:
            return []
        ent = UF_SPECS.get(t.decl().name())
        if ent is None:
            return []
        f, sp = ent
        args = [from_z(c, ty) for c, ty in zip(t.children(), sp["args"])]
        fd = engine._spec_fdef(f)

        def run(ctx):
            itp = engine.Interp(ctx, verify.repo())
            env = itp.bind(fd, f, args, {}, None)
            fr = engine.Frame(env, f.__globals__, f"spec:{f.__name__}", qual=f"spec.{f.__name__}", fdef=fd)
            try:
                itp.exec_block(fd.body, fr)
            except engine.ReturnSig as r:
                return r.value
            return None

        out = []
        try:
            paths = engine.explore(run, opts={"unfolding": True})
        except Unsupported:
            return []
        for p in paths:
            if p.kind != "return":
                continue
            val = to_z(p.value, sp["ret"])
            cond = z3.And(*p.pc) if p.pc else z3.BoolVal(True)
            out.append(z3.Implies(cond, t == val))
        return out

    return [rule] + lemma_rules(thm)


def _lemma_b58val_nonneg(t):
    """forall s. spec.b58val(s) >= 0   (proved by theorem C07.lemma.b58val_nonneg, induction on len(s))"""
    if t.decl().kind() == z3.Z3_OP_UNINTERPRETED and t.decl().name() == "spec_b58val":
        return [t >= 0]
    return []


LEMMAS = {"b58val_nonneg": _lemma_b58val_nonneg}   # enabled per theorem via options["lemmas"]


def lemma_rules(thm):
    return [LEMMAS[n] for n in thm.options.get("lemmas", [])]


def lemma_rule_wrapper(rule):
    return rule


# ------------------------------------------------------------------------------ comprehension maps

_MAPS = {}


def seq_map(it, xs, e, g, fr):
    raise Unsupported("comprehension over symbolic list not implemented yet")
