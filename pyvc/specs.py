"""Recursive spec functions as uninterpreted symbols with engine-side unfolding ("fuel"), and
comprehensions over symbolic lists as map symbols with a pointwise defining axiom."""
import ast

import z3

from . import sym
from .sym import (VInt, VBool, VBytes, VSeq, VHex, Unsupported, Chunk, zi, zb, mk_int, mk_bool,
                  to_vbytes, IntS, BoolS, BytesS, LBytesS)

SORTS = {"int": IntS, "bool": BoolS, "bytes": BytesS, "list:bytes": LBytesS, "list:int": BytesS}

UF_SPECS = {}   # decl name -> (python function, sig)


def uf(sig, unfold=True):
    """Decorator for spec functions that appear as uninterpreted symbols: sig = 'bytes,int -> int'.
    unfold=False: never unfolded (the body is only the native meaning, e.g. group operations)."""
    args, ret = sig.split("->")
    argt = [a.strip() for a in args.split(",") if a.strip()]
    rett = ret.strip()

    def deco(f):
        f.__pyvc__ = {"kind": "uf", "args": argt, "ret": rett, "unfold": unfold}
        return f
    return deco


def to_z(v, ty):
    if ty == "int":
        return zi(v)
    if ty == "bool":
        return zb(v)
    if ty == "bytes":
        return to_vbytes(v).z
    if ty.startswith("list:"):
        from .models import to_vseq
        like = VSeq(None, ty.split(":")[1])
        return to_vseq(None, v, like=like).z
    raise Unsupported(f"uf argument type {ty}")


def from_z(z, ty):
    if ty == "int":
        return mk_int(z)
    if ty == "bool":
        return mk_bool(z)
    if ty == "bytes":
        return vbytes_from_term(z)
    if ty.startswith("list:"):
        parts = ty.split(":")
        return VSeq(z, parts[1], int(parts[2]) if len(parts) > 2 else None)
    raise Unsupported(f"uf result type {ty}")


def vbytes_from_term(z):
    """Rebuild the chunk structure of a (Seq Int) term (literal runs, statically known lengths)."""
    from .sym import norm_bytes
    parts = z.children() if z3.is_app_of(z, z3.Z3_OP_SEQ_CONCAT) else [z]
    chunks = []
    for p in parts:
        if z3.is_app_of(p, z3.Z3_OP_SEQ_EMPTY):
            continue
        if z3.is_app_of(p, z3.Z3_OP_SEQ_UNIT):
            e = p.arg(0)
            if z3.is_int_value(e) and 0 <= e.as_long() < 256:
                b = bytes([e.as_long()])
                chunks.append(Chunk(sym.seqlit(b), 1, b))
            else:
                chunks.append(Chunk(p, 1))
            continue
        n = z3.simplify(z3.Length(p))
        chunks.append(Chunk(p, n.as_long() if z3.is_int_value(n) else None))
    r = norm_bytes(VBytes(chunks))
    return r


def decl_of(f, sp):
    name = "spec_" + f.__name__
    d = sym.uf(name, *[SORTS[a if not a.startswith("list:") else ":".join(a.split(":")[:2])] for a in sp["args"]],
               SORTS[sp["ret"] if not sp["ret"].startswith("list:") else ":".join(sp["ret"].split(":")[:2])])
    UF_SPECS[name] = (f, sp)
    return d


def apply_uf(it, f, sp, args, kwargs, node):
    if kwargs:
        raise Unsupported("keyword arguments to a uf spec function")
    d = decl_of(f, sp)
    zs = [to_z(a, t) for a, t in zip(args, sp["args"])]
    return from_z(d(*zs), sp["ret"])


def unfold_rules(thm):
    """Axiom-instantiation rule: one-step unfolding of every occurring application of a uf spec function."""
    from . import engine, verify

    def rule(t):
        if t.decl().kind() != z3.Z3_OP_UNINTERPRETED:
            return []
        ent = UF_SPECS.get(t.decl().name())
        if ent is None:
            return []
        f, sp = ent
        if not sp.get("unfold", True):
            return []
        ck = t.sexpr()
        hit = _UNFOLD_CACHE.get(ck)
        if hit is not None:
            return hit
        args = [from_z(c, ty) for c, ty in zip(t.children(), sp["args"])]
        fd = engine._spec_fdef(f)

        def run(ctx):
            itp = engine.Interp(ctx, verify.repo())
            env = itp.bind(fd, f, args, {}, None)
            fr = engine.Frame(env, f.__globals__, f"spec:{f.__name__}", qual=f"spec.{f.__name__}", fdef=fd)
            try:
                itp.exec_block(fd.body, fr)
            except engine.ReturnSig as r:
                return r.value
            return None

        out = []
        try:
            paths = engine.explore(run, opts={"unfolding": True, "feas_ms": 200, "nla": False})
        except Unsupported:
            _UNFOLD_CACHE[ck] = []
            return []
        for p in paths:
            if p.kind != "return":
                continue
            val = to_z(p.value, sp["ret"])
            cond = z3.And(*p.pc) if p.pc else z3.BoolVal(True)
            out.append(z3.Implies(cond, t == val))
        _UNFOLD_CACHE[ck] = out
        return out

    return [rule, map_rule] + lemma_rules(thm)


_UNFOLD_CACHE = {}


def _lemma_b58val_nonneg(t):
    """forall s. spec.b58val(s) >= 0   (proved by theorem C07.lemma.b58val_nonneg, induction on len(s))"""
    if t.decl().kind() == z3.Z3_OP_UNINTERPRETED and t.decl().name() == "spec_b58val":
        return [t >= 0]
    return []


SECP_P = 0xFFFFFFFFFFFFFFFFFFFFFFFFFFFFFFFFFFFFFFFFFFFFFFFFFFFFFFFEFFFFFC2F
SECP_N = 0xFFFFFFFFFFFFFFFFFFFFFFFFFFFFFFFEBAAEDCE6AF48A03BBFD25E8CD0364141
SECP_G = (0x79BE667EF9DCBBAC55A06295CE870B07029BFCDB2DCE28D959F2815B16F81798, 0x483ADA7726A3C4655DA4FBFC0E1108A8FD17B448A68554199C47D08FFB10D4B8)


def _lemma_pow_zero(t):
    """In the field Z/p (p prime): c**e = 0 (e >= 1) only if c = 0.   lean/Field.lean: pow_eq_zero_field"""
    if t.decl().kind() == z3.Z3_OP_UNINTERPRETED and t.decl().name() == "powmod":
        c, e, m = t.children()
        if z3.is_int_value(m) and m.as_long() == SECP_P:
            return [z3.Implies(z3.And(e >= 1, t == 0), c % m == 0)]
    return []


def _lemma_no_two_torsion(t):
    """No x satisfies x**3 + 7 = 0 (mod p): secp256k1 has no point with y = 0.   lean/Field.lean: no_two_torsion"""
    out = []
    if z3.is_app_of(t, z3.Z3_OP_MOD) and z3.is_int_value(t.arg(1)) and t.arg(1).as_long() == SECP_P:
        a = t.arg(0)
        # pattern  (7 + x*x*x) % p  /  (x*x*x + 7) % p
        if z3.is_app_of(a, z3.Z3_OP_ADD) and len(a.children()) == 2:
            ch = a.children()
            for c7, cube in ((ch[0], ch[1]), (ch[1], ch[0])):
                if z3.is_int_value(c7) and c7.as_long() == 7 and z3.is_app_of(cube, z3.Z3_OP_MUL) and len(cube.children()) == 3 \
                        and cube.arg(0).eq(cube.arg(1)) and cube.arg(1).eq(cube.arg(2)):
                    out.append(t != 0)
    return out


_SQ_TERMS = {}


def _lemma_sq_eq(t):
    """In Z/p (p prime): a*a = b*b implies a = b or a = -b.   lean/Field.lean: sq_eq_sq_field
    Instantiated for every pair of square terms (a*a) % p, (b*b) % p that occur in the query."""
    out = []
    if z3.is_app_of(t, z3.Z3_OP_MOD) and z3.is_int_value(t.arg(1)) and t.arg(1).as_long() == SECP_P:
        a = t.arg(0)
        if z3.is_app_of(a, z3.Z3_OP_MUL) and len(a.children()) == 2 and a.arg(0).eq(a.arg(1)):
            base = a.arg(0)
            for k2, (t2, b2) in list(_SQ_TERMS.items()):
                if not t2.eq(t):
                    out.append(z3.Implies(z3.And(t == t2, base >= 0, base < SECP_P, b2 >= 0, b2 < SECP_P),
                                          z3.Or(base == b2, base + b2 == SECP_P, z3.And(base == 0, b2 == 0))))
            _SQ_TERMS[t.get_id()] = (t, base)
            if len(_SQ_TERMS) > 40:
                _SQ_TERMS.pop(next(iter(_SQ_TERMS)))
    return out


_SQRT_TERMS = {}


def _sqrt_inst(s_, c_, t2, b2):
    return z3.Implies(z3.And(t2 == c_ % SECP_P, b2 >= 0, b2 < SECP_P),
                      z3.Or(s_ == b2, s_ + b2 == SECP_P, z3.And(s_ == 0, b2 == 0)))


def _lemma_sqrt_root(t):
    """p = 3 (mod 4) prime: if c = b*b (mod p) then c**((p+1)/4) mod p is b or p - b   (ASSUMED field fact; Euler's
    criterion + sq_eq_sq_field).  Instantiated for every pair (sqrt-candidate term, square term) of the query."""
    out = []
    if t.decl().kind() == z3.Z3_OP_UNINTERPRETED and t.decl().name() == "powmod":
        c_, e_, m_ = t.children()
        if z3.is_int_value(m_) and m_.as_long() == SECP_P and z3.is_int_value(e_) and e_.as_long() == (SECP_P + 1) // 4:
            for (t2, b2) in list(_SQ_TERMS.values()):
                out.append(_sqrt_inst(t, c_, t2, b2))
            _SQRT_TERMS[t.get_id()] = (t, c_)
    if z3.is_app_of(t, z3.Z3_OP_MOD) and z3.is_int_value(t.arg(1)) and t.arg(1).as_long() == SECP_P:
        a = t.arg(0)
        if z3.is_app_of(a, z3.Z3_OP_MUL) and len(a.children()) == 2 and a.arg(0).eq(a.arg(1)):
            for (s_, c_) in list(_SQRT_TERMS.values()):
                out.append(_sqrt_inst(s_, c_, t, a.arg(0)))
            if t.get_id() not in _SQ_TERMS:
                _SQ_TERMS[t.get_id()] = (t, a.arg(0))
    return out


def _lemma_smul_add(t):
    """A-group (ASSUMED, textbook): E(F_p) is an abelian group and n*G = O, so k -> k*G is a homomorphism Z/n -> E:
         ((a + b) % n) * G == a*G + b*G.      Instantiated for every scalar of the syntactic form (a + b) % n."""
    out = []
    if t.decl().kind() == z3.Z3_OP_UNINTERPRETED and t.decl().name() == "spec_smul_inf":
        k, x, y = t.children()
        if z3.is_app_of(k, z3.Z3_OP_MOD) and z3.is_int_value(k.arg(1)) and k.arg(1).as_long() == SECP_N \
                and z3.is_app_of(k.arg(0), z3.Z3_OP_ADD) and len(k.arg(0).children()) == 2 \
                and z3.is_int_value(x) and z3.is_int_value(y) and (x.as_long(), y.as_long()) == SECP_G:
            a, b = k.arg(0).children()
            fi, fx, fy = (UF("spec_smul_inf"), UF("spec_smul_x"), UF("spec_smul_y"))
            pi, px, py = (UF("spec_padd_inf"), UF("spec_padd_x"), UF("spec_padd_y"))
            if any(f_ is None for f_ in (fi, fx, fy, pi, px, py)):
                return out
            ia, ib, ik = fi(a, x, y), fi(b, x, y), t
            ax, ay, bx, by = fx(a, x, y), fy(a, x, y), fx(b, x, y), fy(b, x, y)
            kx, ky = fx(k, x, y), fy(k, x, y)
            pre = z3.And(a >= 0, b >= 0)
            out.append(z3.Implies(z3.And(pre, ia), z3.And(ik == ib, z3.Implies(z3.Not(ib), z3.And(kx == bx, ky == by)))))
            out.append(z3.Implies(z3.And(pre, z3.Not(ia), ib), z3.And(z3.Not(ik), kx == ax, ky == ay)))
            both = z3.And(pre, z3.Not(ia), z3.Not(ib))
            out.append(z3.Implies(both, ik == pi(ax, ay, bx, by)))
            out.append(z3.Implies(z3.And(both, z3.Not(ik)), z3.And(kx == px(ax, ay, bx, by), ky == py(ax, ay, bx, by))))
    return out


def UF(name):
    ent = UF_SPECS.get(name)
    if ent is None:
        return None
    return decl_of(*ent)


LEMMAS = {"sqrt_root": _lemma_sqrt_root, "smul_add": _lemma_smul_add, "sq_eq": _lemma_sq_eq, "b58val_nonneg": _lemma_b58val_nonneg, "pow_zero": _lemma_pow_zero, "no_two_torsion": _lemma_no_two_torsion}   # enabled per theorem via options["lemmas"]


def lemma_rules(thm):
    return [LEMMAS[n] for n in thm.options.get("lemmas", [])]


def lemma_rule_wrapper(rule):
    return rule


# ------------------------------------------------------------------------------ comprehension maps

_MAPS = {}   # decl name -> (elem_in, elem_out, evaluator)


def seq_map(it, xs, e, g, fr):
    """[elt for target in xs] where xs is a symbolic-length list or range(n) with symbolic n.

    The result is the application of a comprehension symbol named after the (alpha-normalised) element
    expression; its arguments are the source (list term or length) and the symbolic variables the element
    expression captures.  Equal comprehensions over equal arguments are therefore equal terms.
    Defining axioms (added per occurrence): len(comp(..)) = n and, quantified, comp(..)[i] = elt(i)."""
    import hashlib
    from . import engine
    from .models import is_int, is_bytes
    if not isinstance(g.target, ast.Name):
        raise Unsupported("comprehension target over a symbolic iterable must be a name")
    tname = g.target.id
    if isinstance(xs, VSeq):
        src_kind, src_z, src_meta = "seq", xs.z, (xs.elem, xs.elen)
    elif isinstance(xs, engine.IterView) and xs.kind == "range":
        start, stop, step = xs.parts
        if start != 0 or step != 1:
            raise Unsupported("comprehension over symbolic range with start/step")
        src_kind, src_z, src_meta = "range", zi(stop), None
    else:
        raise Unsupported(f"comprehension over symbolic {type(xs).__name__}")
    free = sorted({n.id for n in ast.walk(e.elt) if isinstance(n, ast.Name)} - {tname})
    cap_c, cap_s = [], []
    for n in free:
        if n in fr.locals:
            v = fr.locals[n]
            if sym.is_sym(v):
                if isinstance(v, VInt):
                    cap_s.append((n, "int", v.z, None))
                elif isinstance(v, VBytes):
                    cap_s.append((n, "bytes", v.z, None))
                elif isinstance(v, VSeq):
                    cap_s.append((n, "list:" + v.elem, v.z, v.elen))
                else:
                    raise Unsupported(f"comprehension captures symbolic {type(v).__name__} {n!r}")
            else:
                cap_c.append((n, repr(v) if not callable(v) else getattr(v, "__qualname__", repr(v))))
    norm = ast.dump(e.elt).replace(f"id='{tname}'", "id='_x'")
    key = hashlib.sha256((norm + repr(cap_c) + src_kind + repr(src_meta) + repr([(n, t, l) for n, t, _, l in cap_s])).encode()).hexdigest()[:10]

    def wrap_cap(zs):
        env = {}
        for (n, t, _, l), z in zip(cap_s, zs):
            if t == "int":
                env[n] = mk_int(z)
            elif t == "bytes":
                env[n] = vbytes_from_term(z)
            else:
                env[n] = VSeq(z, t.split(":")[1], l)
        return env

    def elt_val(itp, srcz, capz, i):
        sub2 = engine.Frame(dict(fr.locals), fr.globals, fr.fname)
        sub2.locals.update(wrap_cap(capz))
        if src_kind == "seq":
            sub2.locals[tname] = itp.seq_index(VSeq(srcz, src_meta[0], src_meta[1]), VInt(i) if not isinstance(i, int) else i)
        else:
            sub2.locals[tname] = mk_int(i) if not isinstance(i, int) else i
        return itp.eval(e.elt, sub2)

    # probe the element type
    ctx = it.ctx
    npc = len(ctx.pc)
    ctx.solver.push()
    try:
        pi = z3.Int("probe!" + key)
        ctx.assume(z3.And(pi >= 0, pi < (z3.Length(src_z) if src_kind == "seq" else src_z)))
        val = elt_val(it, src_z, [c[2] for c in cap_s], pi)
    finally:
        del ctx.pc[npc:]
        ctx.solver.pop()
    if isinstance(val, VHex):
        out_elem, out_sort, elen = "hex", LBytesS, None
    elif is_bytes(val):
        out_elem, out_sort, elen = "bytes", LBytesS, to_vbytes(val).klen()
    elif is_int(val):
        out_elem, out_sort, elen = "int", BytesS, None
    else:
        raise Unsupported("comprehension element type")
    name = f"comp_{key}"
    sorts = [src_z.sort()] + [c[2].sort() for c in cap_s]
    f = sym.uf(name, *sorts, out_sort)

    def elt_at(itp, args, i):
        v = elt_val(itp, args[0], list(args[1:]), i)
        if out_elem == "hex":
            return to_vbytes(v.b).z
        return to_vbytes(v).z if out_elem == "bytes" else zi(v)

    _MAPS[name] = (elt_at, it.repo, src_kind)
    return VSeq(f(src_z, *[c[2] for c in cap_s]), out_elem, elen)


def map_rule(t):
    """len(comp(src, ...)) == n;  forall i in range(n): comp(src, ...)[i] == elt(i)."""
    if t.decl().kind() != z3.Z3_OP_UNINTERPRETED:
        return []
    ent = _MAPS.get(t.decl().name())
    if ent is None:
        return []
    from . import engine
    elt_at, repo, src_kind = ent
    args = t.children()
    n = z3.Length(args[0]) if src_kind == "seq" else z3.If(args[0] >= 0, args[0], 0)
    out = [z3.Length(t) == n]
    i = z3.Int("i!" + t.decl().name())

    def run(ctx):
        itp = engine.Interp(ctx, repo)
        return elt_at(itp, args, i)
    try:
        paths = engine.explore(run, base_pc=[z3.And(i >= 0, i < n)])
    except Unsupported:
        return out
    for p in paths:
        if p.kind == "return":
            cond = z3.And(*p.pc)
            out.append(z3.ForAll([i], z3.Implies(cond, t[i] == p.value)))
    return out
