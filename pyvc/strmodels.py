"""Models of the few str/bytes predicates the verified code uses (filled in per property)."""
from .sym import Unsupported


def bytes_method(it, recv, name, args, kwargs, node):
    return NotImplemented


def call_builtin(it, f, args, kwargs, node):
    return NotImplemented
