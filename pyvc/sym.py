"""Symbolic values and their z3 encoding.

Concrete Python values (int, bool, bytes, str, None, tuple, list, dict) are used as
they are; only values that depend on a symbolic input are wrapped:

  VInt    mathematical integer           -> z3 Int   (Python ints are unbounded: exact)
  VBool                                  -> z3 Bool
  VBytes  bytes                          -> (Seq Int), kept as a list of chunks so that
                                            slicing at statically known offsets is structural
  VSeq    list of symbolic length        -> (Seq Int) for list[int], (Seq (Seq Int)) for list[bytes]
  VHex    str known to be bytes.hex()    -> carried as the bytes it is the hex of
  VOpaque str built only for messages    -> no encoding
"""
import z3

IntS = z3.IntSort()
BoolS = z3.BoolSort()
BytesS = z3.SeqSort(IntS)
LBytesS = z3.SeqSort(BytesS)

_UF = {}


def uf(name, *sorts):
    key = (name,) + tuple(str(s) for s in sorts)
    f = _UF.get(key)
    if f is None:
        f = z3.Function(name, *sorts)
        _UF[key] = f
    return f


# byte-string / integer conversions (axioms in axioms.py)
F_be = uf("be", BytesS, IntS)            # int.from_bytes(b, "big")
F_le = uf("le", BytesS, IntS)            # int.from_bytes(b, "little")
F_tobe = uf("tobe", IntS, IntS, BytesS)  # x.to_bytes(n, "big")
F_tole = uf("tole", IntS, IntS, BytesS)  # x.to_bytes(n, "little")
F_pow = uf("ipow", IntS, IntS, IntS)     # base ** e  (e >= 0)
F_idiv = uf("idiv", IntS, IntS, IntS)     # a // b for a non-constant divisor b > 0
F_imod = uf("imod", IntS, IntS, IntS)     # a %  b for a non-constant divisor b > 0
F_bitlen = uf("bitlen", IntS, IntS)      # x.bit_length()
F_bitand = uf("bitand", IntS, IntS, IntS)
F_bitor = uf("bitor", IntS, IntS, IntS)
F_bitxor = uf("bitxor", IntS, IntS, IntS)
F_sha256 = uf("sha256", BytesS, BytesS)
F_sha512 = uf("sha512", BytesS, BytesS)
F_ripemd160 = uf("ripemd160", BytesS, BytesS)
F_hmac512 = uf("hmac_sha512", BytesS, BytesS, BytesS)
F_join = uf("bjoin", LBytesS, BytesS)    # b"".join(list)
F_lstrip = uf("lstrip", BytesS, IntS, BytesS)
F_rstrip = uf("rstrip", BytesS, IntS, BytesS)
F_rev = uf("brev", BytesS, BytesS)       # b[::-1]


class Unsupported(Exception):
    """The verified code (or a contract) left the supported subset."""


class VInt:
    __slots__ = ("z",)

    def __init__(self, z):
        self.z = z

    def __repr__(self):
        return f"VInt({self.z})"


class VBool:
    __slots__ = ("z",)

    def __init__(self, z):
        self.z = z

    def __repr__(self):
        return f"VBool({self.z})"


class VOpaque:
    """A string used only as a message (f-string with symbolic parts)."""

    def __repr__(self):
        return "VOpaque"


class VHex:
    """str value equal to b.hex() for the carried bytes value b."""
    __slots__ = ("b",)

    def __init__(self, b):
        self.b = b

    def __repr__(self):
        return f"VHex({self.b})"


class VWord:
    """str that is element number `i` (symbolic) of a concrete list of pairwise distinct, whitespace-free words."""
    __slots__ = ("i", "words")

    def __init__(self, i, words):
        self.i = i
        self.words = words

    def __repr__(self):
        return f"VWord({self.i})"


class VPhrase:
    """str equal to ' '.join(items) where items are VWord / concrete whitespace-free words."""
    __slots__ = ("items",)

    def __init__(self, items):
        self.items = list(items)

    def __repr__(self):
        return f"VPhrase({self.items})"


class VStr:
    """str of symbolic content: the sequence of its code points.  Only concatenation, equality, normalisation and
    encoding (both uninterpreted) are modelled."""
    __slots__ = ("z",)

    def __init__(self, z):
        self.z = z

    def __repr__(self):
        return f"VStr({self.z})"


def zstr(v):
    if isinstance(v, VStr):
        return v.z
    if isinstance(v, str):
        return seqlit([ord(c) for c in v])
    raise Unsupported(f"not a str: {v!r}")


class VSeq:
    """list with symbolic length; elem in {'int', 'bytes'}."""
    __slots__ = ("z", "elem", "elen")

    def __init__(self, z, elem, elen=None):
        self.z = z
        self.elem = elem
        self.elen = elen  # known length of every element (bytes elems), or None

    def __repr__(self):
        return f"VSeq[{self.elem}]({self.z})"


def zi(v):
    if isinstance(v, VInt):
        return v.z
    if isinstance(v, bool):
        return z3.IntVal(int(v))
    if isinstance(v, int):
        return z3.IntVal(v)
    if isinstance(v, VBool):
        return z3.If(v.z, z3.IntVal(1), z3.IntVal(0))
    raise Unsupported(f"not an int: {v!r}")


def zb(v):
    if isinstance(v, VBool):
        return v.z
    if isinstance(v, bool):
        return z3.BoolVal(v)
    raise Unsupported(f"not a bool: {v!r}")


def mk_int(z):
    z = z3.simplify(z)
    if z3.is_int_value(z):
        return z.as_long()
    return VInt(z)


def mk_bool(z):
    z = z3.simplify(z)
    if z3.is_true(z):
        return True
    if z3.is_false(z):
        return False
    return VBool(z)


def is_sym(v):
    """True if v (deeply) contains a symbolic value."""
    if isinstance(v, (VInt, VBool, VBytes, VSeq, VHex, VOpaque, VWord, VPhrase, VStr)):
        return True
    if isinstance(v, (tuple, list)):
        return any(is_sym(x) for x in v)
    if isinstance(v, dict):
        return any(is_sym(x) for x in v.values())
    return False


# --------------------------------------------------------------------------- bytes

def seqlit(b):
    if len(b) == 0:
        return z3.Empty(BytesS)
    if len(b) == 1:
        return z3.Unit(z3.IntVal(b[0]))
    return z3.Concat(*[z3.Unit(z3.IntVal(x)) for x in b])


class Chunk:
    __slots__ = ("z", "n", "lit")

    def __init__(self, z, n=None, lit=None):
        self.z = z
        self.n = n      # statically known length or None
        self.lit = lit  # concrete bytes or None

    def zlen(self):
        return z3.IntVal(self.n) if self.n is not None else z3.Length(self.z)


class VBytes:
    __slots__ = ("chunks",)

    def __init__(self, chunks):
        self.chunks = tuple(chunks)

    @staticmethod
    def of(z, n=None):
        return VBytes([Chunk(z, n)])

    @property
    def z(self):
        cs = [c.z for c in self.chunks]
        if not cs:
            return z3.Empty(BytesS)
        if len(cs) == 1:
            return cs[0]
        return z3.Concat(*cs)

    def klen(self):
        t = 0
        for c in self.chunks:
            if c.n is None:
                return None
            t += c.n
        return t

    def zlen(self):
        k = self.klen()
        if k is not None:
            return z3.IntVal(k)
        return z3.simplify(z3.Sum([c.zlen() for c in self.chunks])) if len(self.chunks) > 1 else self.chunks[0].zlen()

    def __repr__(self):
        return f"VBytes({self.z})"


def to_vbytes(v):
    if isinstance(v, VBytes):
        return v
    if isinstance(v, (bytes, bytearray)):
        v = bytes(v)
        if not v:
            return VBytes([])
        return VBytes([Chunk(seqlit(v), len(v), v)])
    raise Unsupported(f"not bytes: {v!r}")


def zbytes(v):
    return to_vbytes(v).z


def norm_bytes(vb):
    """Merge adjacent literal chunks; return python bytes when fully concrete."""
    out = []
    for c in vb.chunks:
        if c.n == 0:
            continue
        if out and out[-1].lit is not None and c.lit is not None:
            lit = out[-1].lit + c.lit
            out[-1] = Chunk(seqlit(lit), len(lit), lit)
        else:
            out.append(c)
    if all(c.lit is not None for c in out):
        return b"".join(c.lit for c in out)
    return VBytes(out)


def bytes_concat(a, b):
    a, b = to_vbytes(a), to_vbytes(b)
    return norm_bytes(VBytes(a.chunks + b.chunks))


def chunk_slice(c, off, ln):
    """slice [off, off+ln) of a chunk of known length (0 <= off, off+ln <= c.n)."""
    if ln == 0:
        return None
    if off == 0 and ln == c.n:
        return c
    if c.lit is not None:
        lit = c.lit[off:off + ln]
        return Chunk(seqlit(lit), len(lit), lit)
    return Chunk(z3.Extract(c.z, z3.IntVal(off), z3.IntVal(ln)), ln)


def bytes_len(v):
    if isinstance(v, (bytes, bytearray)):
        return len(v)
    k = v.klen()
    if k is not None:
        return k
    return mk_int(v.zlen())
