"""Thorough tier extras (bounded stand-ins, conformance of builtin axioms, spec validation)."""


def extend(prop, seed, code):
    return code
