"""Theorem -> paths -> named obligations."""
import ast
import importlib
import os
import sys
import time

import z3

from . import engine, sym
from . import loops  # noqa: mixes cut-point loops into Interp
from .engine import (Ctx, Interp, Frame, Repo, explore, PyRaise, Unsupported, DeadPath, Oblig)
from .sym import VInt, VBool, VBytes, VSeq, Chunk, mk_bool, zb, is_sym, IntS, BytesS, LBytesS

_REPO = None


def repo():
    global _REPO
    if _REPO is None:
        root = os.environ.get("VERIF_REPO", "/repo")
        src = os.path.join(root, "src")
        if src not in sys.path:
            sys.path.insert(0, src)
        _REPO = Repo(root)
    return _REPO


def harness_globals():
    r = repo()
    import bits  # noqa  (from VERIF_REPO/src)
    import bits.base58, bits.tx, bits.script, bits.blockchain, bits.ecmath, bits.keys, bits.pem, bits.crypto  # noqa
    import bits.bips.bip32, bits.bips.bip39, bits.bips.bip143, bits.bips.bip173, bits.bips.bip340, bits.bips.bip350  # noqa
    import bits.p2p, bits.config, bits.wallet.hd  # noqa
    import spec
    global _HG
    if _HG is None:
        from .contracts import forall, implies
        _HG = {"bits": bits, "spec": spec, "forall": forall, "implies": implies}
    return _HG


def make_param(ctx, name, ty, inputs):
    """Create the symbolic value for one parameter; registers its z3 consts as inputs."""
    if isinstance(ty, (tuple, list)) and ty and ty[0] == "enum":
        vals = ty[1]
        k = ctx.fork(len(vals))
        inputs.append((name, "const", vals[k]))
        return vals[k]
    if isinstance(ty, str) and ty.startswith("optional:"):
        k = ctx.fork(2)
        if k == 0:
            inputs.append((name, "const", None))
            return None
        return make_param(ctx, name, ty[len("optional:"):], inputs)
    if ty == "int":
        v = ctx.fresh_int(name)
        inputs.append((name, "int", v.z))
        return v
    if ty == "nat":
        v = ctx.fresh_int(name)
        ctx.assume(v.z >= 0)
        inputs.append((name, "int", v.z))
        return v
    if ty == "bool":
        k = ctx.fork(2)
        inputs.append((name, "const", bool(k)))
        return bool(k)
    if ty == "str":
        z = z3.Const(ctx.fresh_name(name), sym.BytesS)
        inputs.append((name, "str", z))
        return sym.VStr(z)
    if ty == "bytes" or (isinstance(ty, str) and ty.startswith("bytes:")):
        n = int(ty.split(":")[1]) if ":" in ty else None
        v = ctx.fresh_bytes(name, n)
        inputs.append((name, "bytes", v.chunks[0].z))
        return v
    if isinstance(ty, str) and ty.startswith("list:"):
        parts = ty.split(":")
        elem = parts[1]
        elen = int(parts[2]) if len(parts) > 2 else None
        z = z3.Const(ctx.fresh_name(name), LBytesS if elem == "bytes" else BytesS)
        inputs.append((name, "list:" + elem, z))
        return VSeq(z, elem, elen)
    if ty == "point":
        x = ctx.fresh_int(name + "_x")
        y = ctx.fresh_int(name + "_y")
        inputs.append((name, "tuple", [("int", x.z), ("int", y.z)]))
        return (x, y)
    if isinstance(ty, (tuple, list)) and ty and ty[0] == "tuple":
        items = []
        metas = []
        for i, t in enumerate(ty[1]):
            sub = []
            items.append(make_param(ctx, f"{name}_{i}", t, sub))
            metas.append(sub[0][1:])
        inputs.append((name, "tuple", metas))
        return tuple(items)
    if isinstance(ty, (tuple, list)) and ty and ty[0] == "listn":
        # structural list of fixed length n with element type t
        _, n, t = ty
        items = []
        metas = []
        for i in range(n):
            sub = []
            items.append(make_param(ctx, f"{name}_{i}", t, sub))
            metas.append(sub[0][1:])
        inputs.append((name, "list", metas))
        return items
    if isinstance(ty, (tuple, list)) and ty and ty[0] == "hex":
        sub = []
        b = make_param(ctx, name, ty[1], sub)
        inputs.append((name, "hex", sub[0][1:]))
        return sym.VHex(b)
    raise Unsupported(f"parameter type {ty!r}")


def _cglobals(fr):
    """Contract clauses see spec/bits first, then the globals of the function they are attached to."""
    import collections
    hg = harness_globals()
    if fr.globals is hg:
        return hg
    return collections.ChainMap(hg, fr.globals)


_HG = None
_EXPR_CACHE = {}


def parse_expr(src):
    e = _EXPR_CACHE.get(src)
    if e is None:
        e = ast.parse(src.strip(), mode="eval").body
        _EXPR_CACHE[src] = e
    return e


def formula(it, src, fr):
    """Evaluate a contract clause to a z3 Bool by sub-exploration (undefined -> false)."""
    expr = parse_expr(src) if isinstance(src, str) else src
    base = list(it.ctx.pc)
    nbase = len(base)

    def run(cctx):
        sub = Interp(cctx, it.repo, it.specmods, it.contracts, it.modular, it.native_ok)
        v = sub.eval(expr, Frame(dict(fr.locals), _cglobals(fr), fr.fname))
        return sub.truth(v)

    paths = explore(run, base_pc=base, parent=it.ctx, opts=it.ctx.opts, base_tfacts=list(it.ctx.tfacts))
    disj = []
    for p in paths:
        for tf in p.tfacts[p.ctx.n_base_tfacts:]:
            it.ctx.assume_type(tf)
        if p.kind != "return":
            continue
        extra = p.pc[nbase:]
        t = p.value
        if t is False:
            continue
        parts = list(extra) + ([] if t is True else [zb(t)])
        disj.append(z3.And(*parts) if len(parts) != 1 else parts[0]) if parts else disj.append(z3.BoolVal(True))
    if not disj:
        if paths and all(p.kind == "raise" for p in paths):
            e = paths[0].exc
            raise Unsupported(f"contract clause {src if isinstance(src, str) else ast.unparse(src)!r} is undefined: "
                              f"raises {e.exc.__name__} ({e.msg!r}) on every path")
        return z3.BoolVal(False)
    return z3.simplify(z3.Or(*disj)) if len(disj) > 1 else z3.simplify(disj[0])


def value_of(it, src, fr):
    """Evaluate a ghost 'let' expression; must be single-path or mergeable."""
    expr = parse_expr(src)
    base = list(it.ctx.pc)
    nbase = len(base)

    def run(cctx):
        sub = Interp(cctx, it.repo, it.specmods, it.contracts, it.modular, it.native_ok)
        return sub.eval(expr, Frame(dict(fr.locals), _cglobals(fr), fr.fname))

    allp = explore(run, base_pc=base, parent=it.ctx, opts=it.ctx.opts, base_tfacts=list(it.ctx.tfacts))
    for p in allp:
        for tf in p.tfacts[p.ctx.n_base_tfacts:]:
            it.ctx.assume_type(tf)
    for p in allp:
        it.ctx.obligs.extend(p.obligs)      # e.g. preconditions of modular calls made by ghost code
    paths = [p for p in allp if p.kind == "return"]
    if not paths:
        raise Unsupported(f"ghost definition {src!r} is undefined on this path")
    if len(paths) == 1:
        for f in paths[0].pc[nbase:]:
            it.ctx.assume(f)
        # the path condition is adopted, so the outcomes of pure modular calls made while evaluating are too
        memo = it.ctx.ghost.setdefault("pure_calls", [])
        for ent in list(paths[0].ctx.ghost.get("pure_calls", [])):
            if not any(ent is e for e in memo):
                memo.append(ent)
        return paths[0].value
    if len(paths) == 1:
        for f in paths[0].pc[nbase:]:
            it.ctx.assume(f)
        return paths[0].value
    return merge_values(it, [(z3.And(*p.pc[nbase:]) if p.pc[nbase:] else z3.BoolVal(True), p.value) for p in paths])


def merge_values(it, cvs):
    vals = [v for _, v in cvs]
    v0 = vals[0]
    if all((not is_sym(v)) and v == v0 and type(v) is type(v0) for v in vals):
        return v0
    from .models import is_int, is_bytes
    from .sym import zi, to_vbytes, mk_int
    if all(is_int(v) for v in vals):
        r = zi(vals[-1])
        for c, v in reversed(cvs[:-1]):
            r = z3.If(c, zi(v), r)
        return mk_int(r)
    if all(isinstance(v, (bool, VBool)) for v in vals):
        r = zb(vals[-1])
        for c, v in reversed(cvs[:-1]):
            r = z3.If(c, zb(v), r)
        return mk_bool(r)
    if all(is_bytes(v) for v in vals):
        r = to_vbytes(vals[-1]).z
        for c, v in reversed(cvs[:-1]):
            r = z3.If(c, to_vbytes(v).z, r)
        lens = {to_vbytes(v).klen() for v in vals}
        n = lens.pop() if len(lens) == 1 else None
        return VBytes([Chunk(z3.simplify(r), n)])
    if all(isinstance(v, tuple) for v in vals) and len({len(v) for v in vals}) == 1:
        return tuple(merge_values(it, [(c, v[i]) for c, v in cvs]) for i in range(len(v0)))
    if all(isinstance(v, sym.VHex) for v in vals):
        return sym.VHex(merge_values(it, [(c, v.b) for c, v in cvs]))
    raise Unsupported("cannot merge values of different shapes")


def use_lemma(it, thm, tname, binding, fr):
    """Assume the conclusion of another theorem (an obligation of the same run) at the given instantiation.
    Its requires become obligations here; its harness body is evaluated with this theorem's modular callees,
    so the results are the very values (pure-call memo) that the body of this theorem will see."""
    from .contracts import REGISTRY
    ctx = it.ctx
    t1 = next((t for t in REGISTRY if t.name == tname), None)
    if t1 is None:
        raise Unsupported(f"unknown lemma theorem {tname}")
    if not set(t1.modular) <= set(thm.modular):
        raise Unsupported(f"lemma {tname} abstracts callees that {thm.name} does not")
    lf = Frame({}, harness_globals(), "<lemma>")
    for p in t1.params:
        lf.locals[p] = value_of(it, binding[p], fr)
    for r_ in t1.requires:
        ctx.oblige(f"{thm.name}.uses.{tname}.pre", formula(it, r_, lf), {"kind": "lemma-pre", "clause": r_})
    for k, src in t1.lets.items():
        lf.locals[k] = value_of(it, src, lf)
    # the lemma's proof steps are obligations of the lemma's own run: available here too, with the same rebinding of
    # memoised pure-call results to the structured value they were proved equal to
    import re as _re
    for sname, clause in t1.options.get("steps", []):
        ctx.assume(formula(it, clause, lf))
        m_ = _re.match(r"^\s*(\w+)\s*==\s*(\w+)\s*$", clause)
        if m_ and m_.group(1) in lf.locals and m_.group(2) in lf.locals:
            lhs, rhs = lf.locals[m_.group(1)], lf.locals[m_.group(2)]
            memo = ctx.ghost.get("pure_calls", [])
            for i_, (k_, keep_, out_) in enumerate(memo):
                if out_[0] == "return" and out_[1] is lhs:
                    memo[i_] = (k_, keep_, ("return", rhs, out_[2]))
    try:
        lf.locals["result"] = it.eval(parse_expr(t1.body), lf)
    except PyRaise as e:
        if any(c.raises is not None and issubclass(e.exc, c.raises) for c in t1.cases):
            return
        # the lemma (proved in this run) says its body does not raise here: this continuation is infeasible
        raise DeadPath()
    for case in t1.cases:
        if case.raises is not None:
            continue
        w = formula(it, case.when, lf)
        for cname, clause in case.clauses():
            ctx.assume(z3.Implies(w, formula(it, clause, lf)))
            # an unconditional equation  result == <parameter>: later calls that return this memoised result see the
            # (structured) parameter value instead of the opaque result symbol
            import re as _re
            m_ = _re.match(r"^\s*result\s*==\s*(\w+)\s*$", clause)
            if m_ and m_.group(1) in lf.locals and (w is True or z3.is_true(z3.simplify(w) if not isinstance(w, bool) else z3.BoolVal(w))):
                lhs, rhs = lf.locals["result"], lf.locals[m_.group(1)]
                memo = ctx.ghost.get("pure_calls", [])
                for i_, (k_, keep_, out_) in enumerate(memo):
                    if out_[0] == "return" and out_[1] is lhs:
                        memo[i_] = (k_, keep_, ("return", rhs, out_[2]))
    ctx.notes["assumed_contracts"].add(tname + " (lemma)")


class TheoremResult:
    def __init__(self, thm):
        self.thm = thm
        self.obligs = []       # list[Oblig]
        self.paths = 0
        self.unsupported = None
        self.frame_violation = None
        self.notes = {"inlined": set(), "unrolled": {}, "native": set(), "assumed_contracts": set()}
        self.inputs_by_path = {}
        self.covered_cases = set()
        self.gen_s = 0.0


def loopspecs_of(thm):
    from .contracts import LOOPS
    d = dict(LOOPS)
    d.update(thm.loops)
    return d


def generate(thm, all_contracts=None):
    """Symbolically execute the harness; return TheoremResult with obligations."""
    t0 = time.time()
    res = TheoremResult(thm)
    r = repo()
    g = harness_globals()
    body = parse_expr(thm.body)
    opts = dict(thm.options)
    opts["loopspecs"] = loopspecs_of(thm)
    opts["thm"] = thm
    opts["deadline"] = time.time() + thm.options.get("gen_budget_s", float(os.environ.get("VERIF_GEN_BUDGET_S", "600")))
    from . import specs
    opts["extra_rules"] = specs.unfold_rules(thm)
    contracts = all_contracts
    if contracts is None:
        contracts = {}
        from .contracts import REGISTRY
        for t in REGISTRY:
            if t.options.get("contract_of"):
                try:
                    contracts.setdefault(r.resolve(t.options["contract_of"]), t)   # first registered wins
                except Exception:  # noqa
                    pass
        # explicit choice: "qualname@TheoremName"
        mods = []
        for ent in thm.modular:
            if "@" in ent:
                fn, tn = ent.split("@", 1)
                contracts[r.resolve(fn)] = next(t for t in REGISTRY if t.name == tn)
                mods.append(fn)
            else:
                mods.append(ent)
        if mods != list(thm.modular):
            import copy as _copy
            thm = _copy.copy(thm)
            thm.modular = mods

    def run(ctx):
        ctx.inputs = []
        it = Interp(ctx, r, None, contracts, thm.modular, thm.native_ok)
        env = {}
        for pname, ty in thm.params.items():
            env[pname] = make_param(ctx, pname, ty, ctx.inputs)
        fr = Frame(env, g, "<harness>")
        for i, req in enumerate(thm.requires):
            ctx.assume(formula(it, req, fr))
        for k, src in thm.lets.items():
            fr.locals[k] = value_of(it, src, fr)
        for tname, binding in thm.uses:
            use_lemma(it, thm, tname, binding, fr)
        # proof steps: clauses over the ghost definitions, each an obligation, each available to the later ones
        # and to the body (a proved equation result-of-pure-call == structured value also rebinds that result)
        import re as _re
        for sname, clause in thm.options.get("steps", []):
            gl = formula(it, clause, fr)
            ctx.oblige(f"{thm.name}.step.{sname}", gl, {"kind": "step", "clause": clause})
            ctx.assume(gl)
            m_ = _re.match(r"^\s*(\w+)\s*==\s*(\w+)\s*$", clause)
            if m_ and m_.group(1) in fr.locals and m_.group(2) in fr.locals:
                lhs, rhs = fr.locals[m_.group(1)], fr.locals[m_.group(2)]
                memo = ctx.ghost.get("pure_calls", [])
                for i_, (k_, keep_, out_) in enumerate(memo):
                    if out_[0] == "return" and out_[1] is lhs:
                        memo[i_] = (k_, keep_, ("return", rhs, out_[2]))
        ctx.pre_len = len(ctx.pc)
        try:
            result = it.eval(body, fr)
            outcome = ("return", result, None)
        except PyRaise as e:
            outcome = ("raise", None, e)
        fr.locals["result"] = outcome[1]
        whens = []
        for case in thm.cases:
            if case.when.strip() == "otherwise":
                w = z3.simplify(z3.Not(z3.Or(*whens))) if whens else z3.BoolVal(True)
            else:
                w = formula(it, case.when, fr)
            whens.append(w)
            if z3.is_false(w):
                continue
            exp_raise = case.raises is not None
            either = exp_raise and bool(case.clauses())      # "raises one of these, or returns a value satisfying ensures"
            if outcome[0] == "return" and (not exp_raise or either):
                for cname, clause in case.clauses():
                    gl = formula(it, clause, fr)
                    ctx.oblige(f"{thm.name}.{case.name}.{cname}", z3.Implies(w, gl),
                               {"case": case.name, "clause": clause, "kind": "post"})
                    if thm.options.get("chain"):
                        # clauses are proved in order; an earlier clause (itself an obligation) may be used by later ones
                        try:
                            ctx.assume(z3.Implies(w, gl))
                        except DeadPath:
                            break
                        # a proved equation  <result of a pure modular call> == <structured value>  lets later calls
                        # with the same arguments return the structured value (same thing, easier terms)
                        import re as _re
                        m_ = _re.match(r"^\s*(\w+)\s*==\s*(\w+)\s*$", clause)
                        if m_ and z3.is_true(z3.simplify(w)) and m_.group(1) in fr.locals and m_.group(2) in fr.locals:
                            lhs, rhs = fr.locals[m_.group(1)], fr.locals[m_.group(2)]
                            memo = ctx.ghost.get("pure_calls", [])
                            for i_, (k_, keep_, out_) in enumerate(memo):
                                if out_[0] == "return" and out_[1] is lhs:
                                    memo[i_] = (k_, keep_, ("return", rhs, out_[2]))
            elif outcome[0] == "raise" and exp_raise and issubclass(outcome[2].exc, case.raises):
                ctx.oblige(f"{thm.name}.{case.name}.raises", z3.Implies(w, z3.BoolVal(True)),
                           {"case": case.name, "kind": "raises-ok"})
            else:
                got = "returns" if outcome[0] == "return" else f"raises {outcome[2].exc.__name__} (line {outcome[2].site})"
                want = "return" if not exp_raise else "raise " + "/".join(c.__name__ for c in case.raises)
                ctx.oblige(f"{thm.name}.{case.name}.outcome", z3.Not(w),
                           {"case": case.name, "kind": "outcome", "got": got, "want": want})
        ctx.oblige(f"{thm.name}.cases_exhaustive", z3.Or(*whens) if whens else z3.BoolVal(False),
                   {"kind": "exhaustive"})
        # frame: reaching this point means no statement on this path assigned into a module-level object
        ctx.oblige(f"{thm.name}.frame", z3.BoolVal(True),
                   {"kind": "frame", "clause": "modifies nothing that outlives the call (no assignment into module-level objects)"})
        return outcome

    try:
        paths = explore(run, opts=opts)
    except Unsupported as u:
        res.unsupported = f"{type(u).__name__}: {u}"
        res.frame_violation = str(u) if isinstance(u, engine.FrameViolation) else None
        res.gen_s = time.time() - t0
        return res
    res.paths = len([p for p in paths if p.kind != "dead"])
    for pi, p in enumerate(paths):
        for o in p.obligs:
            o.meta["path"] = pi
            o.meta["no_concat_law"] = thm.options.get("no_concat_law", False)
            o.meta["inputs"] = p.ctx.inputs
            o.name_full = f"{o.name}#p{pi}"
            res.obligs.append(o)
        for k in ("inlined", "native", "assumed_contracts"):
            res.notes[k] |= p.notes[k]
        for k, v in p.notes["unrolled"].items():
            res.notes["unrolled"][k] = max(v, res.notes["unrolled"].get(k, 0))
    res.gen_s = time.time() - t0
    return res
