#!/bin/bash
# Nothing to build: verifies that the offline toolchain the checks need is present.
set -e
cd "$(dirname "$0")"
python3-vt -c "import z3; assert z3.get_version_string().startswith('5.'), z3.get_version_string()"
/usr/bin/z3 --version >/dev/null
/usr/bin/cvc5 --version >/dev/null
z3-new --version >/dev/null
PYTHONPATH=/repo/src python3-vt -c "import bits, bits.tx, bits.p2p"
mkdir -p evidence replays
echo setup ok
