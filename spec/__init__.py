"""Executable specification functions (the oracle).  One source: symbolically executed by pyvc
for the VCs, and run natively for replay / spec validation."""
from .bytesnum import *  # noqa
from .base58 import b58val, alpha  # noqa
from . import base58  # noqa
from . import bip143  # noqa
from . import block  # noqa
from . import script  # noqa
from . import p2p  # noqa
from . import ec  # noqa
from . import der  # noqa
from . import bip340  # noqa
from . import fs  # noqa
from . import cli  # noqa
from . import txser  # noqa
from . import bip39  # noqa
from . import bip32  # noqa
from . import bip173  # noqa
