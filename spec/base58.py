"""Base58 specs.  Transcribed from https://en.bitcoin.it/wiki/Base58Check_encoding (the alphabet and the
positional value); independent of bits.base58."""
import hashlib

from pyvc.specs import uf

ALPHABET = b"123456789ABCDEFGHJKLMNPQRSTUVWXYZabcdefghijkmnopqrstuvwxyz"
DIGIT = {c: i for i, c in enumerate(ALPHABET)}


def digit(c):
    """Digit value of character code c (0 for characters outside the alphabet, so that b58val is total)."""
    return DIGIT[c] if c in DIGIT else 0


@uf("bytes -> int")
def b58val(s):
    """Value of the base-58 digit string s, most significant digit first."""
    if len(s) == 0:
        return 0
    return digit(s[0]) * 58 ** (len(s) - 1) + b58val(s[1:])


@uf("bytes -> bool")
def alpha(s):
    """Every character of s is in the Bitcoin alphabet."""
    if len(s) == 0:
        return True
    return s[0] in DIGIT and alpha(s[1:])


def checksum(payload):
    return hashlib.sha256(hashlib.sha256(payload).digest()).digest()[:4]
