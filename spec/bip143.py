"""BIP143 signature message, transcribed from the BIP text
(https://github.com/bitcoin/bips/blob/master/bip-0143.mediawiki, "Specification"), not from bits.bips.bip143.

Inputs are the serialised inputs/outputs of the spending transaction.  An input serialisation is
outpoint(36) || CompactSize || scriptSig || nSequence(4) (contract C05.txin: its first 36 bytes are the outpoint
and its last 4 bytes the sequence), so outpoint_of / sequence_of select exactly those fields."""
import hashlib

ZERO32 = b"\x00" * 32
SIGHASH_NONE = 2
SIGHASH_SINGLE = 3
SIGHASH_ANYONECANPAY = 0x80


def dsha(b):
    return hashlib.sha256(hashlib.sha256(b).digest()).digest()


def outpoint_of(txin):
    return txin[:36]


def sequence_of(txin):
    return txin[-4:]


def hash_prevouts(txins, flag):
    # "If the ANYONECANPAY flag is not set, hashPrevouts is the double SHA256 of the serialization of all input
    #  outpoints; otherwise, hashPrevouts is a uint256 of 0x0000......0000."
    if flag & SIGHASH_ANYONECANPAY:
        return ZERO32
    return dsha(b"".join([t[:36] for t in txins]))


def hash_sequence(txins, flag):
    # "If none of the ANYONECANPAY, SINGLE, NONE sighash type is set, hashSequence is the double SHA256 of the
    #  serialization of nSequence of all inputs; otherwise, hashSequence is a uint256 of 0x0000......0000."
    if (flag & SIGHASH_ANYONECANPAY) or (flag & 0x1F) == SIGHASH_SINGLE or (flag & 0x1F) == SIGHASH_NONE:
        return ZERO32
    return dsha(b"".join([t[-4:] for t in txins]))


def hash_outputs(txouts, idx, flag):
    # "If the sighash type is neither SINGLE nor NONE, hashOutputs is the double SHA256 of the serialization of all
    #  output amount (8-byte little endian) with scriptPubKey; If sighash type is SINGLE and the input index is
    #  smaller than the number of outputs, hashOutputs is the double SHA256 of the output amount with scriptPubKey
    #  of the same index as the input; otherwise, hashOutputs is a uint256 of 0x0000......0000."
    base = flag & 0x1F
    if base != SIGHASH_SINGLE and base != SIGHASH_NONE:
        return dsha(b"".join(txouts))
    if base == SIGHASH_SINGLE and idx < len(txouts):
        return dsha(txouts[idx])
    return ZERO32


def bip143_msg(version, txins, idx, value, script_code, txouts, locktime, flag):
    return (version.to_bytes(4, "little")
            + hash_prevouts(txins, flag)
            + hash_sequence(txins, flag)
            + outpoint_of(txins[idx])
            + script_code
            + value.to_bytes(8, "little")
            + sequence_of(txins[idx])
            + hash_outputs(txouts, idx, flag)
            + locktime.to_bytes(4, "little")
            + flag.to_bytes(4, "little"))
