"""BIP173 / BIP350 reference (transcribed from the BIPs' reference implementation segwit_addr.py, on bytes)."""
CHARSET = b"qpzry9x8gf2tvdw0s3jn54khce6mua7l"
BECH32_CONST = 1
BECH32M_CONST = 0x2BC830A3
HRPS = {"mainnet": b"bc", "testnet": b"tb", "regtest": b"bcrt"}


def polymod(values):
    gen = [0x3B6A57B2, 0x26508E6D, 0x1EA119FA, 0x3D4233DD, 0x2A1462B3]
    chk = 1
    for v in values:
        top = chk >> 25
        chk = (chk & 0x1FFFFFF) << 5 ^ v
        for i in range(5):
            chk ^= gen[i] if ((top >> i) & 1) else 0
    return chk


def hrp_expand(hrp):
    return [c >> 5 for c in hrp] + [0] + [c & 31 for c in hrp]


def convertbits(data, frombits, tobits, pad):
    acc, bits, ret = 0, 0, []
    maxv = (1 << tobits) - 1
    for v in data:
        if v < 0 or (v >> frombits):
            return None
        acc = (acc << frombits) | v
        bits += frombits
        while bits >= tobits:
            bits -= tobits
            ret.append((acc >> bits) & maxv)
    if pad:
        if bits:
            ret.append((acc << (tobits - bits)) & maxv)
    elif bits >= frombits or ((acc << (tobits - bits)) & maxv):
        return None
    return ret


def bech32_decode(s):
    """(hrp, data5, const) or None"""
    if any(c < 33 or c > 126 for c in s) or (s.lower() != s and s.upper() != s):
        return None
    s = s.lower()
    pos = s.rfind(b"1")
    if pos < 1 or pos + 7 > len(s) or len(s) > 90:
        return None
    if not all(c in CHARSET for c in s[pos + 1:]):
        return None
    hrp = s[:pos]
    data = [CHARSET.index(c) for c in s[pos + 1:]]
    const = polymod(hrp_expand(hrp) + data)
    if const not in (BECH32_CONST, BECH32M_CONST):
        return None
    return hrp, data[:-6], const


def decode(s):
    """(hrp, version, program) of a valid segwit address for one of the three networks, else None"""
    if not isinstance(s, (bytes, bytearray)):
        return None
    r = bech32_decode(bytes(s))
    if r is None:
        return None
    hrp, data, const = r
    if hrp not in HRPS.values() or not data:
        return None
    prog = convertbits(data[1:], 5, 8, False)
    if prog is None or len(prog) < 2 or len(prog) > 40:
        return None
    if data[0] > 16:
        return None
    if data[0] == 0 and len(prog) not in (20, 32):
        return None
    if (data[0] == 0) != (const == BECH32_CONST):
        return None
    return hrp, data[0], bytes(prog)


def encode(hrp, version, program):
    data = [version] + convertbits(program, 8, 5, True)
    const = BECH32_CONST if version == 0 else BECH32M_CONST
    pm = polymod(hrp_expand(hrp) + data + [0] * 6) ^ const
    chk = [(pm >> 5 * (5 - i)) & 31 for i in range(6)]
    return hrp + b"1" + bytes(CHARSET[d] for d in data + chk)


def allowed(version, program):
    return 0 <= version <= 16 and (len(program) in (20, 32) if version == 0 else 2 <= len(program) <= 40)


# ---- bounded stand-in bodies (run natively against the library)

def check_roundtrip(network, version, program):
    import bits.utils as u
    addr = u.segwit_addr(program, witness_version=version, network=network)
    dec = u.decode_segwit_addr(addr)
    return {"is_reference_encoding": addr == encode(HRPS[network], version, program), "max_90": len(addr) <= 90,
            "decodes_back": tuple(dec) == (HRPS[network], version, program), "accepted": u.is_segwit_addr(addr) is True,
            "is_addr": u.is_addr(addr) is True, "upper_case_accepted": u.is_segwit_addr(addr.upper()) is True}


def check_classify(s):
    import bits.utils as u
    r = u.is_segwit_addr(s)
    a = u.is_addr(s)
    return {"bool": r is True or r is False, "is_addr_bool": a is True or a is False, "iff_valid": r == (decode(s) is not None),
            "is_addr_implied": (not r) or a is True}
