"""BIP32 transcribed (https://github.com/bitcoin/bips/blob/master/bip-0032.mediawiki), over the spec's group symbols."""
import hashlib
import hmac

from . import ec

HARDENED = 2 ** 31
VERSIONS = {(False, False): bytes.fromhex("0488ADE4"), (True, False): bytes.fromhex("0488B21E"),
            (False, True): bytes.fromhex("04358394"), (True, True): bytes.fromhex("043587CF")}   # (public, testnet)
PRIVATE_VERSIONS = (VERSIONS[(False, False)], VERSIONS[(False, True)])
PUBLIC_VERSIONS = (VERSIONS[(True, False)], VERSIONS[(True, True)])


def hmac512(key, msg):
    return hmac.new(key, msg, digestmod=hashlib.sha512).digest()


def ser_p(pt):
    return ec.sec1_encode(pt[0], pt[1], True)


def priv_data(k, i):
    """the HMAC message of private-parent derivation"""
    if i >= HARDENED:
        return b"\x00" + k.to_bytes(32, "big") + i.to_bytes(4, "big")
    return ser_p(ec.smul(k, ec.G)) + i.to_bytes(4, "big")


def ckd_priv_ok(k, c, i):
    I = hmac512(c, priv_data(k, i))
    il = int.from_bytes(I[:32], "big")
    return il < ec.N and (il + k) % ec.N != 0


def ckd_priv(k, c, i):
    I = hmac512(c, priv_data(k, i))
    return ((int.from_bytes(I[:32], "big") + k) % ec.N, I[32:])


def ckd_pub_ok(K, c, i):
    I = hmac512(c, ser_p(K) + i.to_bytes(4, "big"))
    return int.from_bytes(I[:32], "big") < ec.N


def ckd_pub(K, c, i):
    I = hmac512(c, ser_p(K) + i.to_bytes(4, "big"))
    return (ec.padd(ec.smul(int.from_bytes(I[:32], "big"), ec.G), K), I[32:])


def master(seed):
    I = hmac512(b"Bitcoin seed", seed)
    return (int.from_bytes(I[:32], "big"), I[32:])


def payload(key, chain, depth, fp, child, testnet):
    """the 78 bytes: version | depth | parent fingerprint | child number | chain code | key data"""
    if isinstance(key, tuple):
        return VERSIONS[(True, testnet)] + bytes([depth]) + fp + child.to_bytes(4, "big") + chain + ser_p(key)
    return VERSIONS[(False, testnet)] + bytes([depth]) + fp + child.to_bytes(4, "big") + chain + b"\x00" + key.to_bytes(32, "big")


def valid_payload(p):
    """every rule of BIP32 'Serialization format' + the invalid-key test vectors (set 5)"""
    if len(p) != 78:
        return False
    version, depth, fp, child, key = p[:4], p[4], p[5:9], p[9:13], p[45:]
    if version not in PRIVATE_VERSIONS and version not in PUBLIC_VERSIONS:
        return False
    if depth == 0 and (fp != bytes(4) or child != bytes(4)):
        return False
    if version in PUBLIC_VERSIONS:
        return key[0] in (2, 3) and ec.sec1_ok(key)
    return key[0] == 0 and 1 <= int.from_bytes(key[1:], "big") < ec.N


def fingerprint(pt):
    return hashlib.new("ripemd160", hashlib.sha256(ser_p(pt)).digest()).digest()[:4]


def child_payload_priv(k, c, depth, i, testnet):
    """payload of the child extended private key number i of the private parent (k, c) at depth `depth`"""
    ck, cc = ckd_priv(k, c, i)
    return payload(ck, cc, depth + 1, fingerprint(ec.smul(k, ec.G)), i, testnet)


def child_payload_pub(K, c, depth, i, testnet):
    cK, cc = ckd_pub(K, c, i)
    return payload(cK, cc, depth + 1, fingerprint(K), i, testnet)


# ---- native reference implementation (bounded stand-in for whole paths): own EC arithmetic, own Base58Check

def _b58check(p):
    from . import base58 as b58
    data = p + hashlib.sha256(hashlib.sha256(p).digest()).digest()[:4]
    n = int.from_bytes(data, "big")
    out = b""
    while n:
        n, r = divmod(n, 58)
        out = b58.ALPHABET[r:r + 1] + out
    return b"1" * (len(data) - len(data.lstrip(b"\x00"))) + out


def ref_derive(seed, indices, public_from=None, testnet=False):
    """xprv (or xpub when public_from is not None: neutered at that depth, public derivation afterwards) at the path."""
    I = hmac512(b"Bitcoin seed", seed)
    k, c = int.from_bytes(I[:32], "big"), I[32:]
    K = ec.ec_mul(k, ec.G)
    depth, fp, child = 0, bytes(4), 0
    for n, i in enumerate(indices):
        pub = public_from is not None and n >= public_from
        parent_K = K
        if pub:
            if i >= HARDENED:
                raise ValueError("hardened child of a public key")
            I = hmac512(c, ser_p(K) + i.to_bytes(4, "big"))
            il = int.from_bytes(I[:32], "big")
            assert il < ec.N
            K = ec.ec_add(ec.ec_mul(il, ec.G), K)
            assert K is not None
        else:
            data = (b"\x00" + k.to_bytes(32, "big") if i >= HARDENED else ser_p(K)) + i.to_bytes(4, "big")
            I = hmac512(c, data)
            il = int.from_bytes(I[:32], "big")
            assert il < ec.N
            k = (il + k) % ec.N
            assert k != 0
            K = ec.ec_mul(k, ec.G)
        c = I[32:]
        depth, fp, child = depth + 1, hashlib.new("ripemd160", hashlib.sha256(ser_p(parent_K)).digest()).digest()[:4], i
    if public_from is not None:
        return _b58check(payload(K, c, depth, fp, child, testnet))
    return _b58check(payload(k, c, depth, fp, child, testnet))


def path_str(indices, public):
    return "/".join(["M" if public else "m"] + [str(i - HARDENED) + "'" if i >= HARDENED else str(i) for i in indices])


def check_paths(seed, indices, split, testnet):
    """bounded stand-in body: the library against the reference, whole path and step-wise, private and public branch."""
    import bits.bips.bip32 as b32
    import bits.wallet.hd as hd
    k, c = b32.to_master_key(seed)
    xprv = b32.root_serialized_extended_key(k, c, testnet=testnet)
    whole = hd.derive_from_path(path_str(indices, False), xprv)
    first = hd.derive_from_path(path_str(indices[:split], False), xprv)
    stepwise = hd.derive_from_path(path_str(indices[split:], False), first)
    out = {"whole_is_ref": whole == ref_derive(seed, indices, None, testnet), "composes": whole == stepwise}
    # public branch from the deepest prefix after which every index is non-hardened
    cut = len(indices)
    while cut > 0 and indices[cut - 1] < HARDENED:
        cut -= 1
    xpub_parent = hd.get_xpub(hd.derive_from_path(path_str(indices[:cut], False), xprv))
    out["xpub_parent_is_ref"] = xpub_parent == ref_derive(seed, indices[:cut], cut, testnet)
    pub = hd.derive_from_path(path_str(indices[cut:], True), xpub_parent)
    out["public_is_ref"] = pub == ref_derive(seed, indices, cut, testnet)
    out["public_matches_private"] = pub == hd.get_xpub(whole)
    return out


def il(k, c, i):
    """I_L of private-parent derivation as an integer"""
    return int.from_bytes(hmac512(c, priv_data(k, i))[:32], "big")
