"""BIP340 Schnorr signatures, transcribed from the BIP text ("Default Signing", "Verification", lift_x,
tagged hashes).  Independent of bits.bips.bip340; group operations are the spec.ec symbols."""
import hashlib

from pyvc.specs import uf
from . import ec

P = ec.P
N = ec.N


def sha256(b):
    return hashlib.sha256(b).digest()


def tagged(tag, msg):
    return sha256(sha256(tag) + sha256(tag) + msg)


def lift_x(x):
    """The point with x-coordinate x and even y, or None."""
    if x >= P:
        return None
    c = (x * x * x + 7) % P
    y = pow(c, (P + 1) // 4, P)
    if (y * y) % P != c:
        return None
    return (x, y if y % 2 == 0 else P - y)


def sign(sk, m, aux):
    """BIP340 default signing; b"" when it fails (d' out of range or k' == 0)."""
    d0 = int.from_bytes(sk, "big")
    if d0 == 0 or d0 >= N:
        return b""
    pt = ec.smul(d0, ec.G)
    d = d0 if pt[1] % 2 == 0 else N - d0
    t = (d ^ int.from_bytes(tagged(b"BIP0340/aux", aux), "big")).to_bytes(32, "big")
    rand = tagged(b"BIP0340/nonce", t + pt[0].to_bytes(32, "big") + m)
    k0 = int.from_bytes(rand, "big") % N
    if k0 == 0:
        return b""
    r = ec.smul(k0, ec.G)
    k = k0 if r[1] % 2 == 0 else N - k0
    e = int.from_bytes(tagged(b"BIP0340/challenge", r[0].to_bytes(32, "big") + pt[0].to_bytes(32, "big") + m), "big") % N
    return r[0].to_bytes(32, "big") + ((k + e * d) % N).to_bytes(32, "big")


def neg(pt):
    return None if pt is None else (pt[0], (P - pt[1]) % P)


def verify(pk, m, sig):
    """BIP340 verification: True iff the signature is valid."""
    if len(pk) != 32 or len(sig) != 64:
        return False
    pt = lift_x(int.from_bytes(pk, "big"))
    if pt is None:
        return False
    r = int.from_bytes(sig[:32], "big")
    s = int.from_bytes(sig[32:], "big")
    if r >= P or s >= N:
        return False
    e = int.from_bytes(tagged(b"BIP0340/challenge", sig[:32] + pk + m), "big") % N
    rr = ec.padd(ec.smul(s, ec.G), neg(ec.smul(e, pt)))
    if rr is None or rr[1] % 2 != 0 or rr[0] != r:
        return False
    return True


@uf("bytes,bytes,bytes -> bool")
def verify_ok(pk, m, sig):
    return verify(pk, m, sig)
