"""BIP39 specs, transcribed from the BIP ("Generating the mnemonic", "From mnemonic to seed").
The word list is the repository's english.txt (module data of the library)."""
import hashlib
import unicodedata

import bits.bips.bip39 as _b

WORDS = _b.load_wordlist()
LENGTHS = {16: 12, 20: 15, 24: 18, 28: 21, 32: 24}


def mnemonic(ent):
    """ENT bits of entropy, CS = ENT/32 checksum bits (leading bits of SHA-256), 11-bit groups index the word list."""
    cs_bits = len(ent) * 8 // 32
    cs = hashlib.sha256(ent).digest()[0] >> (8 - cs_bits)
    v = (int.from_bytes(ent, "big") << cs_bits) | cs
    n = (len(ent) * 8 + cs_bits) // 11
    return " ".join([WORDS[(v >> (11 * (n - 1 - i))) & 0x7FF] for i in range(n)])


def seed(m, passphrase=""):
    return hashlib.pbkdf2_hmac("sha512", unicodedata.normalize("NFKD", m).encode("utf-8"),
                               unicodedata.normalize("NFKD", "mnemonic" + passphrase).encode("utf-8"), 2048, 64)


def value(ws):
    """the 11-bit groups of a word-index sequence, most significant first"""
    v = 0
    for w in ws:
        v = v * 2048 + w
    return v


def entropy_of(ws):
    cs_bits = len(ws) // 3
    return (value(ws) >> cs_bits).to_bytes((len(ws) * 11 - cs_bits) // 8, "big")


def checksum_ok(ws):
    """trailing CS bits == leading CS bits of SHA-256 of the entropy bits"""
    cs_bits = len(ws) // 3
    return value(ws) % (2 ** cs_bits) == hashlib.sha256(entropy_of(ws)).digest()[0] >> (8 - cs_bits)


def phrase(ws):
    return " ".join([WORDS[i] for i in ws])


def wordlist_digest(words):
    """SHA-256 of the canonical file form (one word per line, LF, trailing LF) of bitcoin/bips bip-0039/english.txt"""
    return hashlib.sha256(("\n".join(words) + "\n").encode()).hexdigest()


ENGLISH_SHA256 = "2f5eed53a4727b4bf8880d8f3f199efc90e58503646d9ff8eff3a2ed3b24dbda"
