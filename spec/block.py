"""Block-level specs: merkle tree (Bitcoin developer reference, "Merkle trees"), BIP34 height push,
block subsidy (Bitcoin Core GetBlockSubsidy), BIP141 commitment.  Independent of bits.blockchain / bits.tx."""
import hashlib

from pyvc.specs import uf
from .bytesnum import compact_size


def dsha(b):
    return hashlib.sha256(hashlib.sha256(b).digest()).digest()


def pad(row):
    """A level with an odd number of nodes has its last node duplicated."""
    return row + [row[-1]] if len(row) % 2 else row


def level(row):
    """Parents of an even-length level: pairwise double-SHA256."""
    return [dsha(row[2 * j] + row[2 * j + 1]) for j in range(len(row) // 2)]


@uf("list:bytes:32 -> bytes")
def merkle(row):
    """Merkle root of a non-empty list of 32-byte ids."""
    if len(row) == 1:
        return row[0]
    return merkle(level(pad(row)))


def subsidy(height, interval):
    """50 BTC halved every `interval` blocks: an integer right shift (so it is 0 from the 33rd halving on;
    Core special-cases >= 64 halvings only because a C++ shift by >= 64 is undefined)."""
    return 5000000000 >> (height // interval)


def halving_interval(regtest):
    return 150 if regtest else 210000


def scriptnum_len(h):
    """Length of the minimal CScriptNum encoding of h > 0 (little-endian magnitude, top bit is the sign)."""
    return (h.bit_length() + 8) // 8


def bip34_push(h):
    """Minimally encoded block height as the first item of the coinbase script (BIP34)."""
    if h == 0:
        return b"\x00"
    if h <= 16:
        return bytes([0x50 + h])
    n = scriptnum_len(h)
    return bytes([n]) + h.to_bytes(n, "little")


NULL_OUTPOINT = b"\x00" * 32 + b"\xff\xff\xff\xff"
COMMITMENT_HEADER = bytes.fromhex("aa21a9ed")


def cs(n):
    return compact_size(n)


def coinbase_input(script, sequence):
    return NULL_OUTPOINT + cs(len(script)) + script + sequence


def output(value, spk):
    return value.to_bytes(8, "little") + cs(len(spk)) + spk


def commitment_spk(root):
    """OP_RETURN push36(aa21a9ed || witness merkle root)  (BIP141)"""
    return b"\x6a\x24" + COMMITMENT_HEADER + root


def coinbase_tx_ser(script, spk, value, root):
    """Serialised coinbase transaction: version 1, one null-outpoint input, locktime 0; with a BIP141 commitment
    output and the 32-byte reserved-value witness exactly when a witness merkle root is supplied."""
    if root is None:
        return ((1).to_bytes(4, "little") + b"\x01" + coinbase_input(script, b"\xff\xff\xff\xff")
                + b"\x01" + output(value, spk) + (0).to_bytes(4, "little"))
    return ((1).to_bytes(4, "little") + b"\x00\x01" + b"\x01" + coinbase_input(script, b"\xff\xff\xff\xff")
            + b"\x02" + output(value, spk) + output(0, commitment_spk(root))
            + b"\x01\x20" + b"\x00" * 32 + (0).to_bytes(4, "little"))
