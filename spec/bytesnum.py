"""Byte-string / integer specs.  Transcribed from the Bitcoin developer reference (CompactSize)."""


def le(n, width):
    """little-endian encoding of n on exactly width bytes (n must fit)."""
    return n.to_bytes(width, "little")


def compact_size(i):
    """Canonical (shortest) CompactSize encoding of 0 <= i < 2**64."""
    if i <= 252:
        return i.to_bytes(1, "little")
    if i <= 0xFFFF:
        return b"\xfd" + i.to_bytes(2, "little")
    if i <= 0xFFFFFFFF:
        return b"\xfe" + i.to_bytes(4, "little")
    return b"\xff" + i.to_bytes(8, "little")


def compact_size_len(i):
    if i <= 252:
        return 1
    if i <= 0xFFFF:
        return 3
    if i <= 0xFFFFFFFF:
        return 5
    return 9
