"""CLI specs and replay harnesses (C20): option precedence and byte conversions."""
import io
import json
import os
import shutil
import tempfile

import bits
import bits.config

OPTION_NAMES = ["log_level", "network", "rpc_url", "rpc_user", "rpc_password", "rpc_datadir", "input_format", "output_format"]
DEFAULTS = {"log_level": "error", "network": "mainnet", "rpc_url": "", "rpc_user": "", "rpc_password": "", "rpc_datadir": "",
            "input_format": "hex", "output_format": "hex"}


def precedence(k, a, fj, ft, e, toml_supported=True):
    """Value in effect for option k: explicit command-line value, else the configuration file (TOML preferred over
    JSON when both exist and TOML is supported), else the value given at construction, else the built-in default.
    a / e: dicts; fj / ft: dict or None (file absent)."""
    if k in e:
        return e[k]
    chosen = ft if (ft is not None and toml_supported) else fj
    if chosen is not None and k in chosen:
        return chosen[k]
    if k in a:
        return a[k]
    return DEFAULTS[k]


def _toml(d):
    return "".join(f"{k} = {json.dumps(v)}\n" for k, v in d.items())


def effective_config(a, fj, ft, e):
    """Replay harness: Config(**a); load_config(dir holding config.json = fj and/or config.toml = ft); update(**e).
    Returns vars(config).  Symbolically the directory is the ghost file system of pyvc/ghosts.py."""
    d = tempfile.mkdtemp(prefix="bits_c20_")
    try:
        if fj is not None:
            with open(os.path.join(d, "config.json"), "w") as fh:
                json.dump(fj, fh)
        if ft is not None:
            with open(os.path.join(d, "config.toml"), "w") as fh:
                fh.write(_toml(ft))
        c = bits.config.Config(**a)
        c.load_config(d)
        c.update(**e)
        return dict(vars(c))
    finally:
        shutil.rmtree(d, ignore_errors=True)


def parser_registry():
    """(subcommand, dest, action class name) for every registered option whose dest is one of the option names."""
    import argparse
    import bits.__main__ as m
    parser = m.setup_parser() if hasattr(m, "setup_parser") else None
    out = []

    def walk(p, name):
        for act in p._actions:
            if isinstance(act, argparse._SubParsersAction):
                for sub, sp in act.choices.items():
                    walk(sp, sub)
            elif act.dest in OPTION_NAMES:
                out.append((name, act.dest, type(act).__name__))
    walk(parser, "<base>")
    return sorted(set(out))


class _Text:
    """text file object with the .buffer the conversion helpers use"""

    def __init__(self, text="", raw=b""):
        self.t = io.StringIO(text)
        self.buffer = io.BytesIO(raw)

    def read(self):
        return self.t.read()

    def write(self, s):
        return self.t.write(s)


def convert_roundtrip(data, fmt):
    """write_bytes(data, fmt) then read_bytes(fmt) through in-memory files."""
    out = _Text()
    bits.write_bytes(data, out, output_format=fmt)
    if fmt == "raw":
        return bits.read_bytes(_Text(raw=out.buffer.getvalue()), input_format="raw")
    return bits.read_bytes(_Text(text=out.t.getvalue()), input_format=fmt)


def read_text(text, fmt):
    return bits.read_bytes(_Text(text=text), input_format=fmt)
