"""DER signatures (X.690 INTEGER / SEQUENCE, BIP66 strictness).  Independent of bits.pem / bits.utils."""


def der_int(v):
    """Minimal two's-complement big-endian encoding of the positive integer v (a 0x00 pad iff the top bit is set)."""
    n = (v.bit_length() + 7) // 8
    b = v.to_bytes(n, "big")
    if b[0] >= 0x80:
        return b"\x00" + b
    return b


def der_sig(r, s):
    rb = der_int(r)
    sb = der_int(s)
    return bytes([0x30, len(rb) + len(sb) + 4, 0x02, len(rb)]) + rb + bytes([0x02, len(sb)]) + sb


def strict_der(sig):
    """BIP66 IsValidSignatureEncoding without the sighash byte."""
    if len(sig) < 8 or len(sig) > 72:
        return False
    if sig[0] != 0x30 or sig[1] != len(sig) - 2:
        return False
    lr = sig[3]
    if 5 + lr >= len(sig):
        return False
    ls = sig[5 + lr]
    if lr + ls + 6 != len(sig):
        return False
    if sig[2] != 0x02 or lr == 0 or sig[4] & 0x80:
        return False
    if lr > 1 and sig[4] == 0 and not (sig[5] & 0x80):
        return False
    if sig[lr + 4] != 0x02 or ls == 0 or sig[lr + 6] & 0x80:
        return False
    if ls > 1 and sig[lr + 6] == 0 and not (sig[lr + 7] & 0x80):
        return False
    return True
