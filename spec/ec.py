"""secp256k1 specs (SEC 1 v2 section 2.2.1 group law, SEC 2 constants, SEC 1 section 4.1.4 ECDSA verification).
Independent of bits.ecmath: natively these run their own textbook implementation; symbolically smul_* / padd_* are
uninterpreted symbols (the contracts that tie bits.ecmath to them are the C03 obligations)."""
from pyvc.specs import uf

P = 0xFFFFFFFFFFFFFFFFFFFFFFFFFFFFFFFFFFFFFFFFFFFFFFFFFFFFFFFEFFFFFC2F
N = 0xFFFFFFFFFFFFFFFFFFFFFFFFFFFFFFFEBAAEDCE6AF48A03BBFD25E8CD0364141
GX = 0x79BE667EF9DCBBAC55A06295CE870B07029BFCDB2DCE28D959F2815B16F81798
GY = 0x483ADA7726A3C4655DA4FBFC0E1108A8FD17B448A68554199C47D08FFB10D4B8
G = (GX, GY)


def on_curve(x, y):
    return 0 <= x < P and 0 <= y < P and (y * y) % P == (x * x * x + 7) % P


def _inv(a, m):
    return pow(a, -1, m)


def ec_add(p1, p2):
    if p1 is None:
        return p2
    if p2 is None:
        return p1
    (x1, y1), (x2, y2) = p1, p2
    if x1 == x2 and (y1 + y2) % P == 0:
        return None
    if x1 == x2:
        lam = 3 * x1 * x1 * _inv(2 * y1, P) % P
    else:
        lam = (y2 - y1) * _inv((x2 - x1) % P, P) % P
    x3 = (lam * lam - x1 - x2) % P
    return (x3, (lam * (x1 - x3) - y1) % P)


def ec_mul(k, pt):
    r = None
    q = pt
    while k > 0:
        if k & 1:
            r = ec_add(r, q)
        q = ec_add(q, q)
        k >>= 1
    return r


@uf("int,int,int -> bool", unfold=False)
def smul_inf(k, x, y):
    return ec_mul(k, (x, y)) is None


@uf("int,int,int -> int", unfold=False)
def smul_x(k, x, y):
    r = ec_mul(k, (x, y))
    return 0 if r is None else r[0]


@uf("int,int,int -> int", unfold=False)
def smul_y(k, x, y):
    r = ec_mul(k, (x, y))
    return 0 if r is None else r[1]


def smul(k, pt):
    return None if smul_inf(k, pt[0], pt[1]) else (smul_x(k, pt[0], pt[1]), smul_y(k, pt[0], pt[1]))


@uf("int,int,int,int -> bool", unfold=False)
def padd_inf(x1, y1, x2, y2):
    return ec_add((x1, y1), (x2, y2)) is None


@uf("int,int,int,int -> int", unfold=False)
def padd_x(x1, y1, x2, y2):
    r = ec_add((x1, y1), (x2, y2))
    return 0 if r is None else r[0]


@uf("int,int,int,int -> int", unfold=False)
def padd_y(x1, y1, x2, y2):
    r = ec_add((x1, y1), (x2, y2))
    return 0 if r is None else r[1]


def padd(p1, p2):
    if p1 is None:
        return p2
    if p2 is None:
        return p1
    if padd_inf(p1[0], p1[1], p2[0], p2[1]):
        return None
    return (padd_x(p1[0], p1[1], p2[0], p2[1]), padd_y(p1[0], p1[1], p2[0], p2[1]))


def inv_n(s):
    """s**-1 mod n as Fermat's little theorem gives it for the prime n (lemma fermat_inv, lean/Field.lean)."""
    return pow(s, N - 2, N)


def ecdsa_valid(r, s, q, z):
    """SEC 1 section 4.1.4: r, s in [1, n-1]; u1 = z/s, u2 = r/s; R = u1*G + u2*Q; R != O and x(R) mod n == r."""
    if not (1 <= r < N and 1 <= s < N):
        return False
    w = inv_n(s)
    u1 = (z % N) * w % N
    u2 = r * w % N
    rr = padd(smul(u1, G), smul(u2, q))
    if rr is None:
        return False
    return rr[0] % N == r


def sqrt_candidate(c):
    """c**((p+1)/4) mod p: a square root of c when c is a quadratic residue (p = 3 mod 4; lemma sqrt_3mod4)."""
    return pow(c, (P + 1) // 4, P)


def sec1_decode(b):
    """SEC 1 section 2.3.4 octet-string-to-point for secp256k1; None when b does not encode a curve point."""
    if len(b) == 65 and b[0] == 4:
        x = int.from_bytes(b[1:33], "big")
        y = int.from_bytes(b[33:65], "big")
        if x < P and y < P and on_curve(x, y):
            return (x, y)
        return None
    if len(b) == 33 and (b[0] == 2 or b[0] == 3):
        x = int.from_bytes(b[1:33], "big")
        if x >= P:
            return None
        c = (x * x * x + 7) % P
        y = sqrt_candidate(c)
        if y % 2 != b[0] % 2:
            y = (P - y) % P
        if y % 2 != b[0] % 2:
            return None     # only possible for y == 0, which is not on this curve (lemma no_two_torsion)
        if (y * y) % P != c:
            return None     # c is not a quadratic residue: no point with this x
        return (x, y)
    return None


def sec1_encode(x, y, compressed):
    if compressed:
        return bytes([2 + y % 2]) + x.to_bytes(32, "big")
    return b"\x04" + x.to_bytes(32, "big") + y.to_bytes(32, "big")


@uf("bytes -> bool")
def sec1_ok(b):
    """b is the SEC1 encoding (compressed or uncompressed) of a curve point."""
    return sec1_decode(b) is not None


@uf("bytes -> int")
def sec1_x(b):
    r = sec1_decode(b)
    return 0 if r is None else r[0]


@uf("bytes -> int")
def sec1_y(b):
    r = sec1_decode(b)
    return 0 if r is None else r[1]


@uf("int,int,int,int,int -> bool")
def ecdsa_ok(r, s, qx, qy, z):
    """ecdsa_valid as a predicate symbol (unfolded where it is proved, opaque where it is only passed on)."""
    return ecdsa_valid(r, s, (qx, qy), z)


def sign_with_draws(key, digest, draws):
    """Replay harness for bits.ecmath.sign with a scripted random source: secrets.randbelow returns the given draws
    in order (then 1 forever).  Symbolically the RNG is the nondeterministic contract of pyvc/ghosts.py."""
    import secrets
    import bits.ecmath
    it = iter(list(draws))
    real = secrets.randbelow
    secrets.randbelow = lambda n: next(it, 1) % n
    try:
        return bits.ecmath.sign(key, digest)
    finally:
        secrets.randbelow = real


def key_with_draws(draws):
    """Replay harness for bits.keys.key with a scripted random source (randbelow(n) returns draw % n)."""
    import secrets
    import bits.keys
    it = iter(list(draws))
    real = secrets.randbelow
    secrets.randbelow = lambda n: next(it, 1) % n
    try:
        return bits.keys.key()
    finally:
        secrets.randbelow = real
