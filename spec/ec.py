"""secp256k1 specs (SEC 1 v2 section 2.2.1 group law, SEC 2 constants, SEC 1 section 4.1.4 ECDSA verification).
Independent of bits.ecmath: natively these run their own textbook implementation; symbolically smul_* / padd_* are
uninterpreted symbols (the contracts that tie bits.ecmath to them are the C03 obligations)."""
from pyvc.specs import uf

P = 0xFFFFFFFFFFFFFFFFFFFFFFFFFFFFFFFFFFFFFFFFFFFFFFFFFFFFFFFEFFFFFC2F
N = 0xFFFFFFFFFFFFFFFFFFFFFFFFFFFFFFFEBAAEDCE6AF48A03BBFD25E8CD0364141
GX = 0x79BE667EF9DCBBAC55A06295CE870B07029BFCDB2DCE28D959F2815B16F81798
GY = 0x483ADA7726A3C4655DA4FBFC0E1108A8FD17B448A68554199C47D08FFB10D4B8
G = (GX, GY)


def on_curve(x, y):
    return 0 <= x < P and 0 <= y < P and (y * y) % P == (x * x * x + 7) % P


def _inv(a, m):
    return pow(a, -1, m)


def ec_add(p1, p2):
    if p1 is None:
        return p2
    if p2 is None:
        return p1
    (x1, y1), (x2, y2) = p1, p2
    if x1 == x2 and (y1 + y2) % P == 0:
        return None
    if x1 == x2:
        lam = 3 * x1 * x1 * _inv(2 * y1, P) % P
    else:
        lam = (y2 - y1) * _inv((x2 - x1) % P, P) % P
    x3 = (lam * lam - x1 - x2) % P
    return (x3, (lam * (x1 - x3) - y1) % P)


def ec_mul(k, pt):
    r = None
    q = pt
    while k > 0:
        if k & 1:
            r = ec_add(r, q)
        q = ec_add(q, q)
        k >>= 1
    return r


@uf("int,int,int -> bool")
def smul_inf(k, x, y):
    return ec_mul(k, (x, y)) is None


@uf("int,int,int -> int")
def smul_x(k, x, y):
    r = ec_mul(k, (x, y))
    return 0 if r is None else r[0]


@uf("int,int,int -> int")
def smul_y(k, x, y):
    r = ec_mul(k, (x, y))
    return 0 if r is None else r[1]


def smul(k, pt):
    return None if smul_inf(k, pt[0], pt[1]) else (smul_x(k, pt[0], pt[1]), smul_y(k, pt[0], pt[1]))


@uf("int,int,int,int -> bool")
def padd_inf(x1, y1, x2, y2):
    return ec_add((x1, y1), (x2, y2)) is None


@uf("int,int,int,int -> int")
def padd_x(x1, y1, x2, y2):
    r = ec_add((x1, y1), (x2, y2))
    return 0 if r is None else r[0]


@uf("int,int,int,int -> int")
def padd_y(x1, y1, x2, y2):
    r = ec_add((x1, y1), (x2, y2))
    return 0 if r is None else r[1]


def padd(p1, p2):
    if p1 is None:
        return p2
    if p2 is None:
        return p1
    if padd_inf(p1[0], p1[1], p2[0], p2[1]):
        return None
    return (padd_x(p1[0], p1[1], p2[0], p2[1]), padd_y(p1[0], p1[1], p2[0], p2[1]))


def inv_n(s):
    """s**-1 mod n as Fermat's little theorem gives it for the prime n (lemma fermat_inv, lean/Field.lean)."""
    return pow(s, N - 2, N)


def ecdsa_valid(r, s, q, z):
    """SEC 1 section 4.1.4: r, s in [1, n-1]; u1 = z/s, u2 = r/s; R = u1*G + u2*Q; R != O and x(R) mod n == r."""
    if not (1 <= r < N and 1 <= s < N):
        return False
    w = inv_n(s)
    u1 = (z % N) * w % N
    u2 = r * w % N
    rr = padd(smul(u1, G), smul(u2, q))
    if rr is None:
        return False
    return rr[0] % N == r
