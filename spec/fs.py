"""Block-file store specs and replay harness (C19).  The record stream is MAGIC || le32(len) || block per block."""
import os
import shutil
import tempfile

import bits.p2p


def record(magic, blk):
    return magic + len(blk).to_bytes(4, "little") + blk


def records(magic, blks):
    out = b""
    for b in blks:
        out = out + record(magic, b)
    return out


def name(i):
    return "blk" + str(i).zfill(5) + ".dat"


def run_write(files, blocks, limit, listing_order=None, extra_names=()):
    """Replay harness: a directory holding `files` (list of contents for blk00000.dat, blk00001.dat, ...; possibly
    plus unrelated `extra_names`), one call of bits.p2p.write_blocks_to_disk(blocks, dir) with MAX_BLOCKFILE_SIZE = limit
    (a module attribute, no repository hook), os.listdir answering in `listing_order` when given.
    Returns the list of file contents afterwards, in numeric order of the .dat names.
    Symbolically the directory is the ghost file system of pyvc/ghosts.py (A-fs)."""
    d = tempfile.mkdtemp(prefix="bits_c19_")
    real_listdir = os.listdir
    old_limit = bits.p2p.MAX_BLOCKFILE_SIZE
    try:
        for i, c in enumerate(files):
            with open(os.path.join(d, name(i)), "wb") as fh:
                fh.write(c)
        for n in extra_names:
            with open(os.path.join(d, n), "wb") as fh:
                fh.write(b"x")
        if listing_order is not None:
            def fake(p):
                names = real_listdir(p)
                dat = sorted(n for n in names if n.endswith(".dat"))
                rest = [n for n in names if not n.endswith(".dat")]
                order = [dat[k] for k in listing_order if k < len(dat)] + [n for n in dat if n not in [dat[k] for k in listing_order if k < len(dat)]]
                return rest + order
            os.listdir = fake
        bits.p2p.MAX_BLOCKFILE_SIZE = limit
        bits.p2p.write_blocks_to_disk(list(blocks), d)
        os.listdir = real_listdir
        out = []
        for n in sorted(x for x in real_listdir(d) if x.endswith(".dat")):
            with open(os.path.join(d, n), "rb") as fh:
                out.append((n, fh.read()))
        return out
    finally:
        os.listdir = real_listdir
        bits.p2p.MAX_BLOCKFILE_SIZE = old_limit
        shutil.rmtree(d, ignore_errors=True)
