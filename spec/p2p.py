"""P2P wire specs: message frame (protocol documentation, "Message structure") and a scripted socket.

FakeSocket is the *replay harness* for the socket model of DESIGN.md 2.4: natively it delivers `stream` in the
chunk sizes given by `cuts` (then as much as asked for) and returns b"" at end of stream; symbolically the engine
replaces it by the nondeterministic recv contract (every fragmentation at once)."""
import hashlib

import bits.p2p


def dsha(b):
    return hashlib.sha256(hashlib.sha256(b).digest()).digest()


def frame(magic, command, payload):
    return magic + command + b"\x00" * (12 - len(command)) + len(payload).to_bytes(4, "little") + dsha(payload)[:4] + payload


class NonTermination(AssertionError):
    pass


class FakeSocket:
    def __init__(self, stream, cuts=()):
        self.stream = bytes(stream)
        self.cuts = list(cuts)
        self.pos = 0
        self.empty_reads = 0
        self.calls = 0

    def recv(self, n):
        if n < 0:
            raise ValueError("negative buffersize in recv")
        self.calls += 1
        want = n
        if self.cuts:
            c = self.cuts.pop(0)
            want = max(1, min(n, c)) if n > 0 else 0
        chunk = self.stream[self.pos:self.pos + want]
        self.pos += len(chunk)
        if not chunk and n > 0:
            self.empty_reads += 1
            if self.empty_reads > 1000:
                raise NonTermination("receive loop does not terminate: 1000 reads at end of stream")
        return chunk


def recv_one(stream, cuts):
    """Receive one message from a fresh connection carrying `stream`; returns (message, bytes consumed)."""
    s = FakeSocket(stream, cuts)
    r = bits.p2p.recv_msg(s)
    return r, s.pos


class _Evt:
    def __init__(self, n):
        self.n = n

    def is_set(self):
        self.n -= 1
        return self.n < 0


class _Thread:
    def __init__(self, iterations):
        self.exit_event = _Evt(iterations)


class SendSocket(FakeSocket):
    def __init__(self, stream):
        FakeSocket.__init__(self, stream)
        self.sent = []
        self.closed = False

    def sendall(self, b):
        self.sent.append(bytes(b))

    def close(self):
        self.closed = True


class RelyDeque:
    """Deterministic scheduler for one interference point: right after this thread's first append, another peer's
    thread appends its own message (one atomic deque call each, A-gil)."""

    def __init__(self, items, foreign):
        from collections import deque
        self.d = deque(items)
        self.foreign = list(foreign)

    def append(self, x):
        self.d.append(x)
        if self.foreign:
            self.d.append(self.foreign.pop(0))

    def pop(self):
        return self.d.pop()

    def popleft(self):
        return self.d.popleft()

    def __iter__(self):
        return iter(self.d)

    def __len__(self):
        return len(self.d)


def node_iteration(peer_no, command, payload, queue_before, interfere=False, n_peers=2):
    """Replay harness for ONE iteration of bits.p2p.Node.recv_loop for peer `peer_no`: the peer's socket carries exactly
    one framed message (command, payload); the node's queue initially holds `queue_before`.
    Returns (queue afterwards, bytes sent to each peer, per-peer data).  Symbolically the node is a ghost record
    (pyvc/ghosts.py) and, with rely=True in the theorem options, other threads may append between any two queue
    operations of this thread."""
    from collections import deque
    node = bits.p2p.Node()
    node._msg_queue = RelyDeque(queue_before, [("other-peer", b"inv", -1)] if interfere else [])
    for i in range(n_peers):
        node._peer_sockets[i] = SendSocket(frame(bits.p2p.MAGIC_START_BYTES, command, payload) if i == peer_no else b"")
        node._peer_threads[i] = _Thread(1)
        node._peer_data[i] = {}
    node.recv_loop(peer_no)
    return list(node._msg_queue), {i: node._peer_sockets[i].sent for i in range(n_peers)}, node._peer_data
