"""Script specs: minimal pushes (BIP62 rule 3 / Core CScript::operator<<), witness stack framing (BIP144).
Independent of bits.script.utils; the opcode values are Bitcoin Core's script.h numbers."""
from .bytesnum import compact_size

OP_PUSHDATA1, OP_PUSHDATA2, OP_PUSHDATA4 = 0x4C, 0x4D, 0x4E


def push_min(d):
    """Shortest push of the non-empty data item d: direct push for 1..75 bytes, PUSHDATA1 up to 255,
    PUSHDATA2 up to 65535, PUSHDATA4 beyond, each with an exact little-endian length."""
    n = len(d)
    if n <= 75:
        return bytes([n]) + d
    if n <= 0xFF:
        return bytes([OP_PUSHDATA1]) + n.to_bytes(1, "little") + d
    if n <= 0xFFFF:
        return bytes([OP_PUSHDATA2]) + n.to_bytes(2, "little") + d
    return bytes([OP_PUSHDATA4]) + n.to_bytes(4, "little") + d


def witem(d):
    """One witness stack item: CompactSize length, then the bytes."""
    return compact_size(len(d)) + d


def wstack(items):
    """Witness stack of a structural list of items: CompactSize count, then every item."""
    out = compact_size(len(items))
    for d in items:
        out = out + witem(d)
    return out


# canonical opcode names: the name script disassembly reports for each byte value (aliases share a byte)
CORE_OPCODES = {
    0x00: "OP_0", 0x4C: "OP_PUSHDATA1", 0x4D: "OP_PUSHDATA2", 0x4E: "OP_PUSHDATA4", 0x4F: "OP_1NEGATE", 0x50: "OP_RESERVED",
    0x51: "OP_1", 0x52: "OP_2", 0x53: "OP_3", 0x54: "OP_4", 0x55: "OP_5", 0x56: "OP_6", 0x57: "OP_7", 0x58: "OP_8",
    0x59: "OP_9", 0x5A: "OP_10", 0x5B: "OP_11", 0x5C: "OP_12", 0x5D: "OP_13", 0x5E: "OP_14", 0x5F: "OP_15", 0x60: "OP_16",
    0x6A: "OP_RETURN", 0x76: "OP_DUP", 0x87: "OP_EQUAL", 0x88: "OP_EQUALVERIFY", 0xA9: "OP_HASH160",
    0xAC: "OP_CHECKSIG", 0xAE: "OP_CHECKMULTISIG",
}
ALIASES = {"OP_FALSE": "OP_0", "OP_TRUE": "OP_1", "OP_NOP2": "OP_CHECKLOCKTIMEVERIFY", "OP_NOP3": "OP_CHECKSEQUENCEVERIFY"}


def same_op(a, b):
    """Two opcode names denote the same operation (equal up to the aliases that share a byte)."""
    return ALIASES.get(a, a) == ALIASES.get(b, b) or ALIASES.get(b, b) == a or ALIASES.get(a, a) == b


def same_items(got, want):
    """Disassemblies agree item by item: data items equal, opcode names equal up to aliases."""
    if not isinstance(got, list) or len(got) != len(want):
        return False
    for g, w in zip(got, want):
        if isinstance(w, str) and w.startswith("OP_"):
            if not (isinstance(g, str) and same_op(g, w)):
                return False
        elif g != w:
            return False
    return True


def op_n(n):
    """Name of the small-integer opcode for 0 <= n <= 16."""
    return "OP_0" if n == 0 else "OP_" + str(n)
