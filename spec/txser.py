"""Transaction serialisation spec: BIP144 (witness form: marker 00, flag 01, witness stacks before the locktime) and the
legacy form; identifiers per BIP141 (txid over the form without marker/flag/witness, wtxid over the full form).
Independent of bits.tx.  A transaction is given by structural lists:
  ins  = [(outpoint36, script_sig, sequence4), ...]   outs = [(value, script_pubkey), ...]
  wits = None (legacy form) or one list of stack items per input."""
import hashlib

from .bytesnum import compact_size


def dsha(b):
    return hashlib.sha256(hashlib.sha256(b).digest()).digest()


def ser_in(i):
    return i[0] + compact_size(len(i[1])) + i[1] + i[2]


def ser_out(o):
    return o[0].to_bytes(8, "little") + compact_size(len(o[1])) + o[1]


def ser_stack(items):
    out = compact_size(len(items))
    for d in items:
        out = out + compact_size(len(d)) + d
    return out


def ser_nowit(version, ins, outs, locktime):
    out = version.to_bytes(4, "little") + compact_size(len(ins))
    for i in ins:
        out = out + ser_in(i)
    out = out + compact_size(len(outs))
    for o in outs:
        out = out + ser_out(o)
    return out + locktime.to_bytes(4, "little")


def ser(version, ins, outs, wits, locktime):
    if wits is None:
        return ser_nowit(version, ins, outs, locktime)
    out = version.to_bytes(4, "little") + b"\x00\x01" + compact_size(len(ins))
    for i in ins:
        out = out + ser_in(i)
    out = out + compact_size(len(outs))
    for o in outs:
        out = out + ser_out(o)
    for w in wits:
        out = out + ser_stack(w)
    return out + locktime.to_bytes(4, "little")


def rec_in(i):
    return {"txid": i[0][:32].hex(), "vout": int.from_bytes(i[0][32:36], "little"), "scriptsig": i[1].hex(), "sequence": i[2].hex()}


def rec_out(o):
    return {"value": o[0], "scriptpubkey": o[1].hex()}
