# Edited by hand; tools/gen_manifest.py turns it into MANIFEST.json.
_NOTE = ("Trusted: pyvc's encoding of the Python subset, the axiom instances for CPython builtins "
         "(int.to_bytes/from_bytes, bit_length, slicing; listed per run in evidence trusted_base), "
         "SMT solver soundness; hash functions are uninterpreted (only digest lengths assumed).")
CLAIMED["C05"] = {
    "technique": "contract-based deductive verification: sidecar pre/postconditions on the real functions, VCs generated from /repo source by symbolic execution (pyvc), discharged by z3/cvc5 for all inputs; counterexamples replayed natively",
    "text": "Every obligation generated from the current source of the CompactSize codec and the transaction element (de)serialisers is discharged for all integers / byte strings (no bound).",
    "note": _NOTE,
}
