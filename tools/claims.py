# Edited by hand; tools/gen_manifest.py turns it into MANIFEST.json.
_NOTE = ("Trusted: pyvc's encoding of the Python subset, the axiom instances for CPython builtins "
         "(int.to_bytes/from_bytes, bit_length, slicing; listed per run in evidence trusted_base), "
         "SMT solver soundness; hash functions are uninterpreted (only digest lengths assumed).")
CLAIMED["C05"] = {
    "technique": "contract-based deductive verification: sidecar pre/postconditions on the real functions, VCs generated from /repo source by symbolic execution (pyvc), discharged by z3/cvc5 for all inputs; counterexamples replayed natively",
    "text": "Every obligation generated from the current source of the CompactSize codec and the transaction element (de)serialisers is discharged for all integers / byte strings (no bound).",
    "note": _NOTE,
}

_TECH = "contract-based deductive verification: sidecar pre/postconditions, loop invariants and lemmas on the real functions; VCs generated from /repo source by symbolic execution (pyvc) and discharged by z3/cvc5 for all inputs and iterations; counterexamples replayed natively"
CLAIMED["C07"] = {"technique": _TECH,
    "text": "base58encode/base58decode are proved against a positional-value spec with loop invariants (all lengths, leading zeros, canonical digits, alphabet), base58check/base58check_decode/is_base58check against those contracts (modular), and decode(encode(d)) == d for every byte string. Not proved: encode(decode(s)) == s and the composed Base58Check round trip (listed under not_decided_clauses in DESIGN.md).",
    "note": _NOTE + " Inductive lemma b58val >= 0 is proved in the same run. lstrip/bytes-repeat facts are trusted builtin axioms."}
CLAIMED["C11"] = {"technique": _TECH,
    "text": "witness_message equals a spec transcribed from the BIP143 text, byte for byte, for every input list, index, amount, scriptCode, outputs, version, locktime and each of the six sighash types (comprehensions over lists of unbounded length are map terms).",
    "note": _NOTE + " That the first 36 / last 4 bytes of a serialised input are its outpoint / sequence is contract C05.txin. 'Valid under consensus' is the meaning of the BIP, not an obligation."}

CLAIMED["C15"] = {"technique": _TECH,
    "text": "Proved for all inputs: block header (de)serialisation round trip; coinbase input (null outpoint, minimal BIP34 height push for every height < 2^32, 100-byte limit); coinbase transaction (exact default subsidy on both halving schedules, reward cap, BIP141 commitment output and reserved-value witness exactly when a root is given); merkle_root never raises, terminates and returns a hash for every list length. Bounded (not proved): merkle_root == spec merkle for every list length 1..300. Not covered: the block_deser/block_ser round trip (depends on tx_deser, C04/C05).",
    "note": _NOTE + " Heights are restricted to [0, 2^32); an explicit block_reward of 0 is treated by the code as 'not given' and is excluded by the contract's precondition."}

CLAIMED["C13"] = {"technique": _TECH,
    "text": "Proved for all inputs: a data item of any length 1..2^32-1 is pushed with the shortest push and an exact little-endian length, disassembles to itself and re-assembles to the same bytes; every defined non-push opcode name assembles to one byte and disassembles to the same operation (all names, finite); pushes and opcodes do not interfere (two-item combinations); witness stacks of 0..2 items with items of any length use CompactSize count and lengths and round-trip with arbitrary trailing bytes; every standard-template builder disassembles to exactly the intended opcodes and pushes for all argument sizes the template allows (multisig for n in {1,2,3,15,16}, every m). Not proved: the n-ary composition for item lists of unbounded length (needs an invariant over lists of strings).",
    "note": _NOTE + " Opcode numbers are compared with a table transcribed from Bitcoin Core's script.h for the opcodes the templates use."}

CLAIMED["C17"] = {"technique": _TECH + "; the socket is a ghost object with a nondeterministic recv contract, so one proof covers every fragmentation",
    "text": "recv_msg is proved under the socket model for EVERY fragmentation at once (loop invariants over the ghost stream position): a complete frame is returned as (magic, command, payload) with exactly 24+L bytes consumed (no over-read, so consecutive messages never bleed); wrong magic or checksum raises ValueError; a stream that ends early raises instead of looping (variant 24-len(msg) / L-len(payload) strictly decreases). msg_ser equals the frame spec for every known command and rejects unknown commands and oversize payloads. Codec round trips proved for all field values: ping, version, inventory (all six types), network address, getheaders/inv/addr with 0..3 entries, and the getheaders CompactSize count prefix for every count < 2^64.",
    "note": _NOTE + " A-sock (socket model), A-clock, A-checksum: 'a flipped payload bit is rejected' holds modulo a 32-bit truncated-hash collision and is not proved. Entry lists of unbounded length in getheaders/inv/addr are not covered (structural lists of 0..3 entries only)."}
