#!/usr/bin/env python3
"""Confirm a seeded change myself, on a scratch copy of /repo at its current HEAD (outside /repo and /verif):
  1. demo exits 0 on the unpatched copy            2. patch applies
  3. demo exits non-zero on the patched copy       4. the baseline test suite gives the same pass set (187 passed)
Writes the outcome into seeded/<id>/meta.json ("confirmed").   usage: tools/confirm_seed.py seeded/<id> [...]"""
import json, os, re, shutil, subprocess, sys, tempfile

PYTEST = ["/venv/bin/python", "-m", "pytest", "-q", "-p", "no:cacheprovider", "--timeout=900", "--continue-on-collection-errors"]


def run(cmd, cwd, env=None):
    p = subprocess.run(cmd, cwd=cwd, env=env, capture_output=True, text=True, timeout=1800)
    return p.returncode, (p.stdout + p.stderr)


def tests(repo):
    rc, out = run(PYTEST, repo)
    m = re.search(r"(\d+) failed, (\d+) passed", out) or re.search(r"(\d+) passed", out)
    failed = sorted(l.split(" - ")[0] for l in out.splitlines() if l.startswith("FAILED"))
    return (m.group(0) if m else out[-200:]), failed


def confirm(sd):
    meta_p = os.path.join(sd, "meta.json")
    meta = json.load(open(meta_p))
    d = tempfile.mkdtemp(prefix="pyvc_confirm_", dir=os.environ.get("TMPDIR", "/var/tmp"))
    try:
        repo = os.path.join(d, "repo")
        shutil.copytree("/repo", repo, ignore=shutil.ignore_patterns("__pycache__", "*.pyc", ".pytest_cache"))
        head = subprocess.run(["git", "-C", repo, "rev-parse", "--short", "HEAD"], capture_output=True, text=True).stdout.strip()
        demo = os.path.abspath(os.path.join(sd, "demo.py"))
        env = dict(os.environ, PYTHONPATH=os.path.join(repo, "src"))
        rc0, out0 = run(["/venv/bin/python", demo], repo, env)
        t0, f0 = tests(repo)
        ap = subprocess.run(["git", "-C", repo, "apply", "--whitespace=nowarn", os.path.abspath(os.path.join(sd, "patch.diff"))],
                            capture_output=True, text=True)
        if ap.returncode != 0:
            ap2 = subprocess.run(["patch", "-p1", "-F3", "--binary", "-d", repo, "-i", os.path.abspath(os.path.join(sd, "patch.diff"))],
                                 capture_output=True, text=True)
            if ap2.returncode == 0:
                ap = ap2
        res = {"repo_head": head, "demo_unpatched_exit": rc0, "tests_unpatched": t0, "patch_applies": ap.returncode == 0}
        if ap.returncode == 0:
            rc1, out1 = run(["/venv/bin/python", demo], repo, env)
            t1, f1 = tests(repo)
            imp, _ = run(["/venv/bin/python", "-c", "import bits, bits.tx, bits.p2p, bits.wallet.hd"], repo, env)
            res.update({"demo_patched_exit": rc1, "demo_patched_tail": out1.strip().splitlines()[-1][:300] if out1.strip() else "",
                        "tests_patched": t1, "same_failed_set": f0 == f1, "imports": imp == 0})
            res["ok"] = (rc0 == 0 and rc1 != 0 and f0 == f1 and imp == 0 and "187 passed" in t1)
        else:
            res["apply_error"] = ap.stderr[:300]
            res["ok"] = False
        res["commands"] = ["cp -r /repo <scratch>", "PYTHONPATH=<scratch>/src /venv/bin/python demo.py",
                           "cd <scratch> && " + " ".join(PYTEST), "git -C <scratch> apply patch.diff", "(repeat demo and tests)"]
        meta["confirmed"] = res
        json.dump(meta, open(meta_p, "w"), indent=1)
        return res
    finally:
        shutil.rmtree(d, ignore_errors=True)


if __name__ == "__main__":
    for sd in sys.argv[1:]:
        r = confirm(sd.rstrip("/"))
        print(os.path.basename(sd.rstrip("/")), "OK" if r.get("ok") else "NOT CONFIRMED", {k: v for k, v in r.items() if k not in ("commands",)})
