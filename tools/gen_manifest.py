#!/usr/bin/env python3
"""Regenerate MANIFEST.json from the table below (kept valid at all times)."""
import json, os
HERE = os.path.dirname(os.path.dirname(os.path.abspath(__file__)))
props = [json.loads(l) for l in open(os.path.join(HERE, "properties.jsonl"))]

# property id -> (technique, level text, level note, design_ref)
CLAIMED = {}
NOT_APPLICABLE = {
    "C16": "No contract within the verifier's reach decides this property. (1) send_tx obtains its inputs from a running node over JSON-RPC "
           "(bits.rpc -> subprocess/HTTP); the harness can only stub that boundary, and a stubbed environment contract would carry the whole "
           "conservation clause as an assumption. (2) Amounts are binary floats (`int(amount * 1e8)`): the verifier's integers are mathematical and "
           "it has no float theory, so 'uses their exact satoshi values' cannot be stated as an obligation it discharges. (3) 'Every input's "
           "unlocking data satisfies the locking script under Bitcoin's signature-hash and script rules' needs a script interpreter and a legacy "
           "SignatureHash as the specification; the repository has neither (bits.script only serialises), so the postcondition would be a model "
           "written here, i.e. proving a model. Reading the code against the statement did find candidate defects (DESIGN.md section 5, D23-D27: "
           "float truncation of 0.29 BTC, BIP143 message built with the output index as input index, version/locktime not passed to the witness "
           "message, legacy signing over the whole transaction for > 1 input); they are recorded in DESIGN.md as unverified observations, not as "
           "findings of a check, because no check of this family reaches them.",
}
exec(open(os.path.join(HERE, "tools", "claims.py")).read())

checks = []
for p in props:
    pid = p["id"]
    if pid not in CLAIMED:
        continue
    c = CLAIMED[pid]
    checks.append({
        "property_id": pid,
        "quick_cmd": f"./check {pid} --tier quick",
        "thorough_cmd": f"./check {pid} --tier thorough",
        "evidence_file": f"evidence/{pid}.json",
        "replay_cmd_template": f"./check {pid} --replay {{path}}",
        "engine": "pyvc",
        "level_claimed": {"category": c.get("category", "proof"), "text": c["text"], "design_ref": c.get("design_ref", "DESIGN.md section 6")},
        "level_note": c["note"],
        "technique": c["technique"],
    })
na = [{"property_id": p["id"], "reason": NOT_APPLICABLE.get(p["id"], "check not built yet in this round (contract-based deductive verification is the only technique used; see DESIGN.md section 6 for the plan)")}
      for p in props if p["id"] not in CLAIMED]
m = {
    "version": 1,
    "setup_cmd": "./setup.sh",
    "hooks": {"guard": "JTRAUB91_BITS_VERIF", "enable": "no hooks: pyvc reads /repo/src as it is; contracts are sidecar files under /verif/contracts",
              "baseline_off_cmd": "cd /repo && /venv/bin/python -m pytest -ra -q -p no:cacheprovider --timeout=900 --continue-on-collection-errors",
              "source_commits": [], "add_only": True},
    "engines": [{"name": "pyvc", "path": "pyvc/", "serves_properties": sorted(CLAIMED),
                 "kind_free_text": "contract-based deductive verifier for a Python subset: sidecar contracts -> symbolic execution of the real source (re-read every run) -> SMT obligations discharged by z3 4.8.12 / z3 5.1.0 / cvc5 1.0.3 (Lean 4 + Mathlib for field/group lemmas); counterexamples replayed natively on /repo"}],
    "checks": checks,
    "notes": "Exit codes of ./check: 0 every obligation discharged; 1 violation (VIOLATION line, replay file); 2 undecided (solver unknown/timeout or code left the supported subset; never reported as a violation); 3 checker error. VERIF_REPO selects the tree (default /repo). See DESIGN.md.",
    "not_applicable": na,
}
json.dump(m, open(os.path.join(HERE, "MANIFEST.json"), "w"), indent=1)
print("claimed:", sorted(CLAIMED), "not claimed:", [x["property_id"] for x in na])
