"""Self-test mutants: each keeps /repo importable and (checked when admitted) the 187 baseline tests green.
D-items are the defects of DESIGN.md section 5 re-introduced after their fix."""
MUTANTS = [
    dict(id="cs-254-short-read", prop="C05", file="src/bits/utils.py",
         old='integer = int.from_bytes(payload[1:5], "little")', new='integer = int.from_bytes(payload[1:4], "little")'),
    dict(id="cs-252-253", prop="C05", file="src/bits/utils.py",
         old="elif integer >= 0 and integer <= 252:", new="elif integer >= 0 and integer <= 253:"),
    dict(id="cs-ffff", prop="C05", file="src/bits/utils.py",
         old="elif integer >= 253 and integer <= 0xFFFF:", new="elif integer >= 253 and integer <= 0xFFFE:"),
    dict(id="txin-deser-seq-slice", prop="C05", file="src/bits/tx.py",
         old="txin_ = txin_prime[scriptsig_len + 4 :]", new="txin_ = txin_prime[scriptsig_len + 3 :]"),
    dict(id="txout-deser-value-be", prop="C05", file="src/bits/tx.py",
         old='"value": int.from_bytes(value, "little"),', new='"value": int.from_bytes(value, "big"),'),
    dict(id="txin-deser-vout-slice", prop="C05", file="src/bits/tx.py",
         old="vout = txin_[32:36]", new="vout = txin_[32:35]"),
]
MUTANTS += [
    dict(id="b58-enc-prepend-order", prop="C07", file="src/bits/base58.py",
         old="encoded = BITCOIN_ALPHABET[idx : idx + 1] + encoded", new="encoded = encoded + BITCOIN_ALPHABET[idx : idx + 1]"),
    dict(id="b58-dec-pow", prop="C07", file="src/bits/base58.py",
         old="result += BITCOIN_ALPHABET_MAP[byte] * (58**idx)", new="result += BITCOIN_ALPHABET_MAP[byte] * (58**(idx+1))"),
    dict(id="b58-dec-no-lstrip", prop="C07", file="src/bits/base58.py",
         old='data = data.lstrip(b"1")', new='data = data.lstrip(b"")'),
    dict(id="b58-check-3bytes", prop="C07", file="src/bits/base58.py",
         old="if checksum != checksum_check:", new="if checksum[:3] != checksum_check[:3]:"),
    dict(id="b58-check-slice5", prop="C07", file="src/bits/base58.py",
         old="payload = decoded_addr[:-4]", new="payload = decoded_addr[:-5]"),
    dict(id="b58-enc-zeros", prop="C07", file="src/bits/base58.py",
         old="return BITCOIN_ALPHABET[0:1] * zeros + encoded", new="return BITCOIN_ALPHABET[0:1] * newlen + encoded"),
    dict(id="b58-dec-256", prop="C07", file="src/bits/base58.py",
         old="result, byte = divmod(result, 256)", new="result, byte = divmod(result, 255)"),
]
