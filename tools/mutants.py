"""Self-test mutants: each keeps /repo importable and (checked when admitted) the 187 baseline tests green.
D-items are the defects of DESIGN.md section 5 re-introduced after their fix."""
MUTANTS = [
    dict(id="cs-254-short-read", prop="C05", file="src/bits/utils.py",
         old='integer = int.from_bytes(payload[1:5], "little")', new='integer = int.from_bytes(payload[1:4], "little")'),
    dict(id="cs-252-253", prop="C05", file="src/bits/utils.py",
         old="elif integer >= 0 and integer <= 252:", new="elif integer >= 0 and integer <= 253:"),
    dict(id="cs-ffff", prop="C05", file="src/bits/utils.py",
         old="elif integer >= 253 and integer <= 0xFFFF:", new="elif integer >= 253 and integer <= 0xFFFE:"),
    dict(id="txin-deser-seq-slice", prop="C05", file="src/bits/tx.py",
         old="txin_ = txin_prime[scriptsig_len + 4 :]", new="txin_ = txin_prime[scriptsig_len + 3 :]"),
    dict(id="txout-deser-value-be", prop="C05", file="src/bits/tx.py",
         old='"value": int.from_bytes(value, "little"),', new='"value": int.from_bytes(value, "big"),'),
    dict(id="txin-deser-vout-slice", prop="C05", file="src/bits/tx.py",
         old="vout = txin_[32:36]", new="vout = txin_[32:35]"),
]
