#!/usr/bin/env python3
"""Exact-text replacement in a repo file that preserves CRLF/LF line endings.
usage: repo_edit.py <file> <old-file> <new-file>   (old/new given with LF endings)"""
import sys


def edit(path, old, new, count=1):
    raw = open(path, "rb").read()
    crlf = b"\r\n" in raw
    o = old.encode()
    n = new.encode()
    if crlf:
        o = o.replace(b"\r\n", b"\n").replace(b"\n", b"\r\n")
        n = n.replace(b"\r\n", b"\n").replace(b"\n", b"\r\n")
    if raw.count(o) != count:
        raise SystemExit(f"{path}: pattern occurs {raw.count(o)} times, expected {count}")
    open(path, "wb").write(raw.replace(o, n))


if __name__ == "__main__":
    edit(sys.argv[1], open(sys.argv[2]).read(), open(sys.argv[3]).read())
