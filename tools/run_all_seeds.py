#!/usr/bin/env python3
"""Run every seeded change against the check of its property (scratch copy, see tools/run_seed.py) and record the
outcome in seeded/<id>/meta.json ("caught_by").   usage: tools/run_all_seeds.py [seed-id ...]"""
import json, os, re, subprocess, sys, glob
HERE = os.path.dirname(os.path.dirname(os.path.abspath(__file__)))
ONLY = {  # restrict the long checks to the theorems that look at the changed function (full runs take ~10 min each)
    "C01-sign-s-zero": "C01.sign", "C02-verify-infinity-false": "C02.verify",
}
ids = sys.argv[1:] or sorted(os.path.basename(d) for d in glob.glob(os.path.join(HERE, "seeded", "C*")))
for sid in ids:
    sd = os.path.join(HERE, "seeded", sid)
    meta = json.load(open(os.path.join(sd, "meta.json")))
    prop = meta["property"]
    cmd = [sys.executable, os.path.join(HERE, "tools", "run_seed.py"), sd, prop] + (["--only", ONLY[sid]] if sid in ONLY else [])
    p = subprocess.run(cmd, capture_output=True, text=True, env=dict(os.environ, VERIF_NO_CACHE="1"))
    out = p.stdout
    vio = re.findall(r"violated obligation (\S+?):", out) or [os.path.basename(x)[:-5] for x in re.findall(r"replay=(\S+\.json)", out)]
    m = re.search(r"exit (\d+)\s*$", out.strip())
    code = int(m.group(1)) if m else None
    lines = [l for l in out.splitlines() if l.startswith("VIOLATION")]
    if "PATCH DOES NOT APPLY" in out:
        meta["caught_by"] = {"status": "patch does not apply to the current tree"}
    elif "no check" in out or code is None:
        meta["caught_by"] = {"status": "not run", "detail": out[-300:]}
    else:
        meta["caught_by"] = {"status": "caught" if (code == 1 and lines) else "MISSED", "check": f"./check {prop}" + (f" --only {ONLY[sid]}" if sid in ONLY else ""),
                             "exit": code, "violated_obligations": sorted(set(vio))[:6],
                             "no_failing_input": any(l.rstrip().endswith("no-failing-input-found") for l in lines)}
    json.dump(meta, open(os.path.join(sd, "meta.json"), "w"), indent=1)
    print(sid, meta["caught_by"].get("status"), meta["caught_by"].get("violated_obligations", "")[:3] if isinstance(meta["caught_by"].get("violated_obligations"), list) else "", flush=True)
