#!/usr/bin/env python3
"""Run the checks of a property against a seeded change: scratch copy of /repo + patch.diff, VERIF_REPO -> copy.
usage: tools/run_seed.py seeded/<id> PROP [--only REGEX]"""
import json, os, shutil, subprocess, sys, tempfile
HERE = os.path.dirname(os.path.dirname(os.path.abspath(__file__)))
sd, prop = sys.argv[1], sys.argv[2]
extra = sys.argv[3:]
d = tempfile.mkdtemp(prefix="pyvc_seed_", dir=os.environ.get("TMPDIR", "/var/tmp"))
try:
    repo = os.path.join(d, "repo")
    shutil.copytree("/repo", repo, ignore=shutil.ignore_patterns("__pycache__", "*.pyc", ".pytest_cache"))
    r = subprocess.run(["git", "-C", repo, "apply", "--whitespace=nowarn", os.path.abspath(os.path.join(sd, "patch.diff"))], capture_output=True, text=True)
    if r.returncode:
        r = subprocess.run(["patch", "-p1", "-F3", "--binary", "-d", repo, "-i", os.path.abspath(os.path.join(sd, "patch.diff"))], capture_output=True, text=True)
        if r.returncode:
            print("PATCH DOES NOT APPLY:", r.stdout, r.stderr); sys.exit(4)
        print("(patch applied with fuzz: the tree has moved since the seed was written)")
    env = dict(os.environ, VERIF_REPO=repo, VERIF_EVIDENCE_DIR=os.path.join(d, "evidence"), VERIF_REPLAYS_DIR=os.path.join(d, "replays"))
    p = subprocess.run([os.path.join(HERE, "check"), prop] + extra, env=env, capture_output=True, text=True)
    print(p.stdout[-3000:]); print(p.stderr[-1500:]); print("exit", p.returncode)
finally:
    shutil.rmtree(d, ignore_errors=True)
