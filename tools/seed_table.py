#!/usr/bin/env python3
"""Regenerate the seed table of DESIGN.md 10.6 from seeded/*/meta.json."""
import glob, json, os, re
HERE = os.path.dirname(os.path.dirname(os.path.abspath(__file__)))
rows = ["| seed | change | confirmed (demo + 187 tests) | caught by (obligations of the last run) |", "|---|---|---|---|"]
for mp in sorted(glob.glob(os.path.join(HERE, "seeded", "C*", "meta.json"))):
    m = json.load(open(mp))
    cb = m.get("caught_by") or {}
    conf = m.get("confirmed") or {}
    if cb.get("status") == "caught":
        how = ", ".join(f"`{o}`" for o in cb.get("violated_obligations", [])[:3]) + (" (no-failing-input-found)" if cb.get("no_failing_input") else "")
    else:
        how = "**" + str(cb.get("status", "not run")) + "**" + (" - C16 is not applicable to this family, no check exists" if m["property"] == "C16" else "")
    rows.append(f"| {m['id']} | {m.get('change', '')[:110]} | {'yes' if conf.get('ok') else 'NO'} ({conf.get('repo_head', '?')}) | {how} |")
table = "\n".join(rows)
p = os.path.join(HERE, "DESIGN.md")
s = open(p).read()
a = s.index("| seed | c")
b = s.index("\n\n", a)
s = s[:a] + table + s[b:]
open(p, "w").write(s)
print(table)
