#!/usr/bin/env python3
"""Mutation self-test: apply each mutant to a scratch copy of /repo (outside /repo and /verif),
point ./check at the copy and require exit 1 with a VIOLATION line.  Surviving mutants are listed;
this tool never changes a property check's exit code.

usage: tools/selftest.py [PROP ...]   (default: all mutants)   env SELFTEST_JOBS
"""
import json, os, re, shutil, subprocess, sys, tempfile
from concurrent.futures import ThreadPoolExecutor

HERE = os.path.dirname(os.path.dirname(os.path.abspath(__file__)))
sys.path.insert(0, HERE)
from tools.mutants import MUTANTS  # noqa


def run_one(m):
    d = tempfile.mkdtemp(prefix="pyvc_mut_", dir=os.environ.get("TMPDIR", "/var/tmp"))
    try:
        repo = os.path.join(d, "repo")
        shutil.copytree("/repo", repo, ignore=shutil.ignore_patterns(".git", "__pycache__", "*.pyc", ".pytest_cache"))
        path = os.path.join(repo, m["file"])
        from tools.repo_edit import edit
        try:
            edit(path, m["old"], m["new"])
        except SystemExit as ex:
            return m, "inapplicable", str(ex)
        env = dict(os.environ, VERIF_REPO=repo, VERIF_EVIDENCE_DIR=os.path.join(d, "evidence"),
                   VERIF_REPLAYS_DIR=os.path.join(d, "replays"))
        cmd = [os.path.join(HERE, "check"), m["prop"]] + (["--only", m["only"]] if m.get("only") else [])
        p = subprocess.run(cmd, capture_output=True, text=True, env=env, timeout=3600)
        vio = [l for l in p.stdout.splitlines() if l.startswith("VIOLATION")]
        det = [l for l in p.stdout.splitlines() if "violated obligation" in l or "failing input" in l]
        if p.returncode == 1 and vio:
            exp = m.get("expect")
            if exp and not any(re.search(exp, l) for l in p.stdout.splitlines()):
                return m, "caught-elsewhere", "; ".join(det)[:300]
            return m, "caught", "; ".join(det)[:300]
        return m, f"SURVIVED(exit {p.returncode})", (p.stdout[-400:] + p.stderr[-300:]).replace("\n", " | ")
    finally:
        shutil.rmtree(d, ignore_errors=True)


def main():
    props = set(sys.argv[1:])
    ms = [m for m in MUTANTS if not props or m["prop"] in props or m["id"] in props]
    jobs = int(os.environ.get("SELFTEST_JOBS", "4"))
    bad = 0
    with ThreadPoolExecutor(jobs) as ex:
        for m, status, detail in ex.map(run_one, ms):
            print(f"{m['id']:28s} {m['prop']} {status:22s} {detail}")
            bad += not status.startswith("caught")
    print(f"{len(ms) - bad}/{len(ms)} mutants caught")
    return 0


if __name__ == "__main__":
    sys.exit(main())
